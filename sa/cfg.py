"""Statement-level control-flow graphs with dominators, post-dominators, control dependence and the
three path predicates used by the rules (must-precede, exactly-once-per-path, guarded-by)."""

from __future__ import annotations

import ast
from dataclasses import dataclass, field

from . import AnalysisError


@dataclass(eq=False)
class Node:
    id: int
    kind: str  # entry | exit | raise_exit | stmt | test | for | handler | join
    ast: ast.AST | None = None
    loop_depth: int = 0
    loops: tuple = ()  # enclosing loop statements (ast nodes), outermost first

    def __repr__(self):  # pragma: no cover
        t = ""
        if self.ast is not None:
            try:
                t = ast.unparse(self.ast).split("\n")[0][:60]
            except Exception:
                t = type(self.ast).__name__
        return f"<{self.id}:{self.kind} {t}>"

    def __hash__(self):
        return self.id


class CFG:
    def __init__(self, fn: ast.FunctionDef | ast.Lambda):
        self.fn = fn
        self.nodes: list[Node] = []
        self.succ: dict[Node, list[tuple[Node, str]]] = {}
        self.pred: dict[Node, list[tuple[Node, str]]] = {}
        self.entry = self._new("entry")
        self.exit = self._new("exit")
        self.raise_exit = self._new("raise_exit")
        self._loop_stack: list[tuple[Node, list, ast.AST]] = []  # (head, break-sources, loop stmt)
        self._handler_stack: list[list[Node]] = []
        self._finally_stack: list = []
        if isinstance(fn, ast.Lambda):
            n = self._new("stmt", ast.Return(value=fn.body))
            ast.copy_location(n.ast, fn.body)
            self._edge(self.entry, n, "")
            self._edge(n, self.exit, "return")
        else:
            outs = self._seq(fn.body, [(self.entry, "")])
            for src, lbl in outs:
                self._edge(src, self.exit, lbl or "fallthrough")
        self._idom = None
        self._ipdom = None

    # --------------------------------------------------------------- construction
    def _new(self, kind, node=None) -> Node:
        n = Node(len(self.nodes), kind, node, len(self._loop_stack) if hasattr(self, "_loop_stack") else 0,
                 tuple(l[2] for l in self._loop_stack) if hasattr(self, "_loop_stack") else ())
        self.nodes.append(n)
        self.succ[n] = []
        self.pred[n] = []
        return n

    def _edge(self, a: Node, b: Node, label: str) -> None:
        if (b, label) not in self.succ[a]:
            self.succ[a].append((b, label))
            self.pred[b].append((a, label))

    def _connect(self, ins, node: Node) -> None:
        for src, lbl in ins:
            self._edge(src, node, lbl)

    def _raise_targets(self) -> list[Node]:
        if self._handler_stack:
            return self._handler_stack[-1]
        return [self.raise_exit]

    def _seq(self, stmts, ins):
        for st in stmts:
            ins = self._stmt(st, ins)
        return ins

    def _stmt(self, st, ins):
        if isinstance(st, ast.Match):
            from .astutil import desugar_match

            stmts = desugar_match(st)
            if stmts is not None:
                return self._seq(stmts, ins)
        if isinstance(st, ast.If):
            t = self._new("test", st)
            self._connect(ins, t)
            a = self._seq(st.body, [(t, "True")])
            b = self._seq(st.orelse, [(t, "False")]) if st.orelse else [(t, "False")]
            return a + b
        if isinstance(st, (ast.For, ast.While)):
            head = self._new("for" if isinstance(st, ast.For) else "test", st)
            self._connect(ins, head)
            breaks: list = []
            self._loop_stack.append((head, breaks, st))
            body_label = "iter" if isinstance(st, ast.For) else "True"
            done_label = "done" if isinstance(st, ast.For) else "False"
            outs = self._seq(st.body, [(head, body_label)])
            self._loop_stack.pop()
            for src, lbl in outs:
                self._edge(src, head, lbl or "back")
            after = [(head, done_label)]
            if st.orelse:
                after = self._seq(st.orelse, after)
            return after + breaks
        if isinstance(st, ast.Try):
            handlers = [self._new("handler", h) for h in st.handlers]
            catches_all = any(h.type is None or (isinstance(h.type, ast.Name) and h.type.id in ("Exception", "BaseException")) for h in st.handlers)
            targets = list(handlers)
            if not catches_all:
                targets += self._raise_targets()
            self._handler_stack.append(targets)
            first_in_body = len(self.nodes)
            body_outs = self._seq(st.body, ins)
            self._handler_stack.pop()
            # any statement of the body may raise into each handler
            for n in self.nodes[first_in_body:]:
                if n.kind in ("stmt", "test", "for") and n not in handlers:
                    for h in handlers:
                        self._edge(n, h, "except")
            # entering the try may also raise before the first body node completes: covered above
            outs = self._seq(st.orelse, body_outs) if st.orelse else body_outs
            for h, hn in zip(st.handlers, handlers):
                outs = outs + self._seq(h.body, [(hn, "")])
            if st.finalbody:
                outs = self._seq(st.finalbody, outs)
            return outs
        if isinstance(st, (ast.With, ast.AsyncWith)):
            n = self._new("stmt", st)
            self._connect(ins, n)
            return self._seq(st.body, [(n, "")])
        if isinstance(st, ast.Return):
            n = self._new("stmt", st)
            self._connect(ins, n)
            self._edge(n, self.exit, "return")
            return []
        if isinstance(st, ast.Raise):
            n = self._new("stmt", st)
            self._connect(ins, n)
            for t in self._raise_targets():
                self._edge(n, t, "raise")
            return []
        if isinstance(st, ast.Break):
            n = self._new("stmt", st)
            self._connect(ins, n)
            if not self._loop_stack:
                raise AnalysisError("break outside loop")
            self._loop_stack[-1][1].append((n, "break"))
            return []
        if isinstance(st, ast.Continue):
            n = self._new("stmt", st)
            self._connect(ins, n)
            self._edge(n, self._loop_stack[-1][0], "continue")
            return []
        if isinstance(st, ast.Assert):
            n = self._new("test", st)
            self._connect(ins, n)
            for t in self._raise_targets():
                self._edge(n, t, "False")
            return [(n, "True")]
        if isinstance(st, ast.Match):
            raise AnalysisError("match statement not supported by the CFG builder")
        n = self._new("stmt", st)
        self._connect(ins, n)
        return [(n, "")]

    # --------------------------------------------------------------- queries
    def stmt_nodes(self):
        return [n for n in self.nodes if n.kind in ("stmt", "test", "for", "handler")]

    def node_of(self, stmt: ast.AST) -> Node:
        for n in self.nodes:
            if n.ast is stmt:
                return n
        raise AnalysisError("statement not in CFG")

    def nodes_containing(self, pred) -> list[Node]:
        """CFG nodes whose *own* expression part (not nested bodies) contains an ast node satisfying pred."""
        out = []
        for n in self.stmt_nodes():
            for sub in own_exprs(n):
                if any(pred(x) for x in ast.walk(sub)):
                    out.append(n)
                    break
        return out

    def reachable(self, start: Node | None = None) -> set[Node]:
        start = start or self.entry
        seen = {start}
        st = [start]
        while st:
            n = st.pop()
            for m, _ in self.succ[n]:
                if m not in seen:
                    seen.add(m)
                    st.append(m)
        return seen

    def _dom(self, root: Node, succ, pred) -> dict[Node, set[Node]]:
        reach = set()
        st = [root]
        while st:
            n = st.pop()
            if n in reach:
                continue
            reach.add(n)
            st.extend(m for m, _ in succ[n])
        dom = {n: set(reach) for n in reach}
        dom[root] = {root}
        changed = True
        while changed:
            changed = False
            for n in reach:
                if n is root:
                    continue
                ps = [p for p, _ in pred[n] if p in reach]
                new = set.intersection(*(dom[p] for p in ps)) if ps else set()
                new = new | {n}
                if new != dom[n]:
                    dom[n] = new
                    changed = True
        return dom

    def dominators(self) -> dict[Node, set[Node]]:
        if self._idom is None:
            self._idom = self._dom(self.entry, self.succ, self.pred)
        return self._idom

    def postdominators(self, include_raise: bool = False) -> dict[Node, set[Node]]:
        """Post-dominators w.r.t. the normal exit (raise exits are ignored unless include_raise)."""
        key = "_pd_r" if include_raise else "_pd"
        if getattr(self, key, None) is None:
            succ = {n: list(s) for n, s in self.succ.items()}
            pred = {n: list(p) for n, p in self.pred.items()}
            root = self.exit
            if include_raise:
                v = Node(-1, "vexit")
                succ[v] = []
                pred[v] = [(self.exit, ""), (self.raise_exit, "")]
                succ[self.exit] = succ[self.exit] + [(v, "")]
                succ[self.raise_exit] = succ[self.raise_exit] + [(v, "")]
                root = v
            setattr(self, key, self._dom(root, pred, succ))
        return getattr(self, key)

    def dominates(self, a: Node, b: Node) -> bool:
        """Every path entry→b passes a."""
        d = self.dominators()
        return b in d and a in d[b]

    def postdominates(self, a: Node, b: Node) -> bool:
        """Every path b→normal exit passes a."""
        d = self.postdominators()
        return b in d and a in d[b]

    def can_reach(self, a: Node, b: Node, avoiding: set[Node] | None = None) -> bool:
        avoiding = avoiding or set()
        seen = set()
        st = [m for m, _ in self.succ[a]]
        while st:
            n = st.pop()
            if n in seen or n in avoiding:
                continue
            if n is b:
                return True
            seen.add(n)
            st.extend(m for m, _ in self.succ[n])
        return False

    def guards_of(self, n: Node) -> list[tuple[Node, str]]:
        """(test node, edge label) pairs such that n is only reachable through that edge of the test
        (the test dominates n and every path test→n starts with that edge)."""
        out = []
        dom = self.dominators()
        for t in dom.get(n, ()):
            if t.kind not in ("test", "for") or t is n:
                continue
            labels = {lbl for _, lbl in self.succ[t]}
            for lbl in labels:
                others = [m for m, l2 in self.succ[t] if l2 != lbl]
                # n must not be reachable from t through another edge without passing t again
                reach_other = False
                for o in others:
                    if o is n or self.can_reach(o, n, avoiding={t}) :
                        reach_other = True
                        break
                mine = [m for m, l2 in self.succ[t] if l2 == lbl]
                reach_mine = any(m is n or self.can_reach(m, n, avoiding={t}) for m in mine)
                if reach_mine and not reach_other:
                    out.append((t, lbl))
        return out

    def acyclic_paths(self, limit: int = 2000, to_raise: bool = False):
        """Enumerates entry→exit paths, traversing each loop body at most once (back edges cut)."""
        targets = {self.exit} | ({self.raise_exit} if to_raise else set())
        paths = []

        def go(n, path, onpath):
            if len(paths) >= limit:
                return
            if n in targets:
                paths.append(path + [n])
                return
            for m, lbl in self.succ[n]:
                if m in onpath:
                    # back edge: skip the loop by following the loop head's exit edges instead
                    if m.kind in ("for", "test"):
                        for k, l2 in self.succ[m]:
                            if l2 in ("done", "False") and k not in onpath:
                                go(k, path + [n, m], onpath | {n, m})
                    continue
                go(m, path + [n], onpath | {n})

        go(self.entry, [], set())
        return paths


def own_exprs(n: Node) -> list[ast.AST]:
    """The expression parts evaluated *at* a CFG node (excluding nested statement bodies)."""
    a = n.ast
    if a is None:
        return []
    if n.kind == "test":
        return [a.test]
    if n.kind == "for":
        return [a.iter, a.target]
    if n.kind == "handler":
        return [a.type] if a.type is not None else []
    if isinstance(a, (ast.With, ast.AsyncWith)):
        out = []
        for it in a.items:
            out.append(it.context_expr)
            if it.optional_vars is not None:
                out.append(it.optional_vars)
        return out
    if isinstance(a, (ast.FunctionDef, ast.AsyncFunctionDef, ast.ClassDef)):
        return list(a.decorator_list)
    return [a]


_CFG_CACHE: dict[int, CFG] = {}


def cfg_of(fn_node) -> CFG:
    c = _CFG_CACHE.get(id(fn_node))
    if c is None or c.fn is not fn_node:
        c = CFG(fn_node)
        _CFG_CACHE[id(fn_node)] = c
    return c
