"""Tensor methods and torch/numpy/cvxpy/qpsolvers library functions (part 3 of the operator table)."""

from __future__ import annotations

import ast
from fractions import Fraction

from .ops import F0, HALF, deg_add, deg_scale, deg_sub, deg_sum, tv_of
from .poly import Poly
from .torchcalls import TorchCalls
from .torchops import ARG_REDUCTIONS, SYM_REDUCTIONS, UNARY_FUNCS, VIEW_METHODS
from .values import (
    FALSE, NONE, TRUE, Z, Const, DictV, ExtV, ListV, MetaV, ObjV, SetV, TV, Unk, VmapV, join, join_deg,
)

CREATORS = {"zeros": Z, "ones": F0, "empty": F0, "full": "fill", "eye": F0, "rand": F0, "randn": F0, "identity": F0}
LIKE = {"zeros_like": Z, "ones_like": F0, "empty_like": F0, "rand_like": F0, "randn_like": F0, "full_like": "fill"}
RNG_FUNCS = {"rand", "randn", "randperm", "randint", "rand_like", "randn_like", "normal", "bernoulli", "multinomial",
             "random", "uniform", "standard_normal", "permutation", "shuffle", "choice", "dropout"}


class FullOps(TorchCalls):
    # =========================================================================== shapes
    def axes_from_sizes(self, sizes, node):
        """Axis tags from size arguments (python ints carrying size_of, or literals)."""
        axes = []
        flat = []
        for s in sizes:
            if isinstance(s, ListV) and s.items is not None:
                flat.extend(s.items)
            else:
                flat.append(s)
        for s in flat:
            t = tv_of(s)
            if t is None:
                axes.append("K")
                continue
            if t.size_of in ("R", "C") and t.poly is not None and t.poly in (Poly.sym("m"), Poly.sym("n")):
                axes.append(t.size_of)
            elif t.poly is not None and t.poly.const_value() == 1:
                axes.append("1")
            else:
                axes.append("K")
        return tuple(axes), flat

    def creation_flags(self, axes, sizes_flat):
        z = not any(tv_of(s) is not None and tv_of(s).size_of == "C" and a != "C" for s, a in zip(sizes_flat, axes))
        return dict(z=z)

    # =========================================================================== reductions
    def reduce(self, t: TV, fn: str, dim, keepdim, node, ord_=None):
        dims = None
        if dim is not None and not (isinstance(dim, Const) and dim.v is None):
            if isinstance(dim, ListV) and dim.items is not None:
                dims = [self.axis_of(t, d, node) for d in dim.items]
            else:
                dims = [self.axis_of(t, dim, node)]
            if any(d is None for d in dims):
                return self.unk(f"{fn} over unresolved dim", node)
        else:
            dims = list(range(len(t.axes)))
        fl = dict(p=t.p, q=t.q, s=t.s, z=t.z)
        cur = t
        for d in dims:
            tag = t.axes[d]
            if t.note.startswith("finite-test") and fn in ("all", "any"):
                continue
            if tag == "C":
                if fn == "norm":
                    how = "l2" if ord_ in (None, 2, "fro") else "nonl2"
                elif fn in ("sum", "nansum", "count_nonzero", "all", "any"):
                    how = "sum"
                elif fn in ("mean", "nanmean", "std", "var", "median"):
                    how = "mean"
                else:
                    how = "ext"
                if how != "l2":
                    cur = cur.but(**fl)
                    fl = self.lose_axis_flags(cur, "C", how, node)
            # symmetric reductions over R keep p; over K/1 neutral
            elif "C" in t.axes and fn not in ("sum", "mean", "nansum", "nanmean"):
                # a non-linear reduction applied column by column
                if fl["q"]:
                    self.clear("q", f"non-linear reduction {fn} applied column-wise", node)
                fl["q"] = False
        axes = tuple(("1" if keepdim else None) if i in dims else a for i, a in enumerate(t.axes))
        axes = tuple(a for a in axes if a is not None)
        deg = t.deg
        if fn in ("prod",):
            deg = None if t.deg not in (F0, Z) else t.deg
        if fn in ("all", "any", "count_nonzero"):
            deg = F0
        if fn in ("std", "var"):
            deg = deg_scale(t.deg, 2) if fn == "var" else t.deg
        dtype = t.dtype
        if fn in ("all", "any"):
            dtype = "Bool"
        if fn in ("mean",) and dtype in ("Int", "Bool"):
            dtype = "Default"
        out = t.but(axes=axes, deg=deg, dtype=dtype, alias=False, span=t.span and "C" in axes, poly=None, idx_of=None,
                    size_of=None, kind="pyint" if t.is_py else t.kind, **fl)
        if t.note.startswith("finite-test"):
            # all(isfinite(x)) / any(isnan(x) | isinf(x)) over every axis: the question "is every entry of x finite?" (asked negatively by the latter);
            # any other reduction of a finiteness predicate (any(isnan(x)) alone, all(~isfinite(x)), ...) is not that question
            whole = len(dims) == len(t.axes)
            q = "allfinite?" + "+".join(sorted(t.origin))
            note = {("finite-test", "all"): q, ("finite-test:non", "any"): q + "|neg"}.get((t.note, fn)) if whole else None
            part = {("finite-test:nan", "any"): "anynan?", ("finite-test:inf", "any"): "anyinf?"}.get((t.note, fn)) if whole else None
            out = out.but(note=note or ((part + "+".join(sorted(t.origin))) if part else "finite-test:other"))  # (any(isnan(x)) / any(isinf(x)): halves of the question, see boolop)
            if note and t.origin == frozenset(["matrix"]):
                self.ev("finite_check", node)
        if t.note == "rowdiff":
            # ||matrix - row||_p over the columns: the distances from the current row to every row (one row of the matrix of pairwise distances)
            exact = fn == "norm" and [t.axes[d] for d in dims] == ["C"] and not keepdim and t.axes == ("R", "C") and t.q and t.s and t.span and t.deg == Fraction(1) and len(t.gen) == 1
            out = out.but(note=f"rowdist:{2 if ord_ in (None, 'fro') or ord_ == 2 else ord_}" if exact else "")
        return self.tag(out, "reduce", node, fn=fn, over=[t.axes[d] for d in dims], over_pos=list(dims), in_axes=list(t.axes), in_origin=sorted(t.origin))

    def arg_reduce(self, t: TV, fn, dim, node):
        d = self.axis_of(t, dim, node) if dim is not None and not (isinstance(dim, Const) and dim.v is None) else (0 if len(t.axes) == 1 else None)
        if d is None:
            return self.unk(f"{fn} over unresolved dim", node)
        tag = t.axes[d]
        axes = t.axes[:d] + t.axes[d + 1:]
        fl = dict(p=t.p, q=t.q, s=t.s, z=t.z)
        if tag == "C":
            fl = self.lose_axis_flags(t, "C", "ext", node)
        elif "C" in t.axes:
            fl["q"] = False
        if not (t.deg is not None):
            self.ev("scale_branch", node, left=str(t.deg), right="-", why=f"{fn} of a non-homogeneous value")
        return TV(kind=t.kind, axes=axes, deg=F0, dtype="Int", idx_of=tag, origin=t.origin, gen=t.gen, rng=t.rng, **fl)

    def sort_like(self, t: TV, fn, dim, node, k=None, extra=None):
        d = self.axis_of(t, dim, node) if dim is not None else len(t.axes) - 1
        if d is None:
            return self.unk(f"{fn} over unresolved dim", node)
        tag = t.axes[d]
        axes = t.axes[:d] + ("K",) + t.axes[d + 1:]
        fl = dict(p=t.p, q=t.q, s=t.s, z=t.z)
        if tag == "C":
            fl = self.lose_axis_flags(t, "C", "scan", node)
        elif "C" in t.axes:
            if fl["q"]:
                self.clear("q", f"{fn} applied column-wise", node)
            fl["q"] = False
        vals = t.but(axes=axes, alias=False, span=False, poly=None, **fl)
        idxs = TV(kind=t.kind, axes=axes, deg=F0, dtype="Int", idx_of=tag, origin=t.origin, gen=t.gen, rng=t.rng, **fl)
        vals = self.tag(vals, fn, node, axis=tag, axis_pos=d, in_axes=list(t.axes), in_origin=sorted(t.origin), **(extra or {}))
        idxs = idxs.but(origin=vals.origin)
        return vals, idxs

    # =========================================================================== tensor methods
    def tensor_method(self, t: TV, name, args, kwargs, node, env):
        if t.kind == "cvx":
            return self.unk(f"cvx method {name}", node)
        lib = "numpy." if t.kind == "ndarray" else "torch."
        if name in ("new_ones", "new_zeros", "new_empty", "new_full") and t.kind == "tensor":
            # t.new_*(size, ...) == torch.*(size, ..., dtype=t.dtype, device=t.device)
            r = self.call_lib("torch.", name[4:], list(args), {k: v for k, v in kwargs.items() if k not in ("device", "requires_grad")}, node, env)
            if isinstance(r, TV) and "dtype" not in kwargs:
                r = r.but(dtype=t.dtype)
            return r
        if name == "new_tensor" and t.kind == "tensor" and args:
            # t.new_tensor(data) == torch.tensor(data, dtype=t.dtype, device=t.device): a copy of the data in t's dtype
            r = self.call_lib("torch.", "tensor", list(args[:1]), {}, node, env)
            return r.but(dtype=t.dtype if "dtype" not in kwargs else self.dtype_from_kwargs(kwargs, t.dtype), alias=False) if isinstance(r, TV) else r
        # conversions / views
        if name in ("detach", "cpu", "cuda", "contiguous", "real", "ravel"):
            return t.but(axes=("K",) if name == "ravel" and len(t.axes) > 1 else t.axes)
        if name == "numpy":
            return t.but(kind="ndarray")
        if name == "clone" or name == "copy":
            return t.but(alias=False)
        if name == "astype":
            d = args[0] if args else kwargs.get("dtype")
            tag = d.tag if isinstance(d, MetaV) else (self.ext_dtype(d.name) if isinstance(d, ExtV) else "Mixed")
            keep = self.interp.truth(kwargs.get("copy", TRUE)) is False  # astype(copy=False) may return the array itself
            return t.but(dtype=tag, alias=t.alias and keep)
        if name in ("to", "type", "double", "float", "half", "long", "int", "bool"):
            dt = t.dtype
            if name == "to":
                cand = list(args) + [kwargs.get("dtype")]
                for c in cand:
                    if isinstance(c, MetaV) and c.what == "dtype":
                        dt = c.tag
                    elif isinstance(c, TV) and not c.is_py:
                        dt = c.dtype
            elif name != "type":
                dt = {"double": "Fixed:float64", "float": "Fixed:float32", "half": "Fixed:float16", "long": "Int", "int": "Int", "bool": "Bool"}[name]
            if t.dtype == "M" and dt in ("Fixed:float32", "Fixed:float16", "Fixed:bfloat16") and t.kind == "tensor" and "matrix" in t.origin:
                self.ev("precision_loss", node, why=f"values computed from the matrix are converted to {dt[6:]}: for a float64 matrix the intermediate results are rounded (and can underflow / overflow) "
                                                   "before the result is converted back to the matrix dtype")
            if t.dtype == "Default" and dt == "M":
                c = t.poly.const_value() if t.poly is not None else None
                if c is None or c.denominator != 1:
                    self.ev("precision_loss", node, why="a value computed in torch's default dtype is converted to the matrix dtype afterwards (float32 rounding survives in float64)")
            return t.but(dtype=dt)
        if name == "item" or name == "tolist":
            if name == "item":
                return t.but(kind="pyfloat", axes=(), alias=False)
            return ListV(items=None, elem=t.but(kind="pyfloat", axes=t.axes[1:], alias=False), over=t.axes[0] if t.axes else None)
        if name in ("dim", "ndimension"):
            return TV(kind="pyint", poly=Poly.const(len(t.axes)))
        if name in ("numel", "nelement"):
            out = None
            for i in range(len(t.axes)):
                s = self.size_tv(t, i)
                out = s if out is None else self.elementwise(out, s, "mul", node)
            return (out if out is not None else TV(kind="pyint", poly=Poly.const(1))).but(size_of=t.axes[0] if len(t.axes) == 1 else None)
        if name == "size":
            if args:
                d = self.axis_of(t, args[0], node)
                return self.size_tv(t, d) if d is not None else self.unk("size(dim)", node)
            return ListV(items=tuple(self.size_tv(t, i) for i in range(len(t.axes))), kind="tuple")
        if name in ("t", "transpose", "swapaxes", "permute", "movedim"):
            if name == "t" or (name in ("transpose", "swapaxes") and len(t.axes) == 2):
                return t.but(axes=tuple(reversed(t.axes)))
            return self.unk(f"{name} with general permutation", node)
        if name in ("unsqueeze", "expand_dims"):
            d = self.const_int(args[0] if args else kwargs.get("dim"))
            if d is None:
                return self.unk("unsqueeze dim", node)
            n = len(t.axes) + 1
            if d < 0:
                d += n
            return t.but(axes=t.axes[:d] + ("1",) + t.axes[d:])
        if name == "squeeze":
            if args or "dim" in kwargs:
                d = self.axis_of(t, args[0] if args else kwargs["dim"], node)
                if d is None:
                    return self.unk("squeeze dim", node)
                return t.but(axes=t.axes[:d] + t.axes[d + 1:])
            return t.but(axes=tuple(a for a in t.axes if a != "1"))
        if name in ("view", "reshape", "flatten", "view_as", "reshape_as", "unflatten"):
            return self.reshape(t, name, args, kwargs, node)
        if name == "narrow":
            return self.narrow(t, args, kwargs, node)
        if name in ("split", "chunk", "tensor_split"):
            dim = kwargs.get("dim", args[1] if len(args) > 1 else None)
            d = self.axis_of(t, dim, node) if dim is not None else 0
            if d is None:
                return self.unk("split dim", node)
            sizes = args[0] if args else kwargs.get("split_size_or_sections")
            if name == "split" and isinstance(sizes, ListV) and sizes.items is not None and all(tv_of(x) is not None and tv_of(x).poly is not None for x in sizes.items):
                # split([s0, s1, ...], dim): consecutive sections of the given sizes — section i is narrow(dim, s0 + ... + s(i-1), si)
                out, start = [], Poly.const(0)
                for i_, x in enumerate(sizes.items):
                    tx = tv_of(x)
                    st_ = TV(kind="pyint", dtype="Py", poly=start, origin=tx.origin, deg=F0)
                    self._tag_variant = i_  # one structural operator per section (they share the call site)
                    try:
                        out.append(self.narrow(t, [Const(d), st_, tx], {}, node))
                    finally:
                        self._tag_variant = None
                    start = start + tx.poly
                return ListV(items=tuple(out), kind="tuple")
            tag = t.axes[d]
            # consecutive blocks of an axis: each block is a subset of its positions; mapping over the blocks and
            # concatenating the results restores the axis
            blk = t.but(axes=t.axes[:d] + ("K",) + t.axes[d + 1:], span=t.span and tag != "C", note="block-of-" + tag)
            return ListV(items=None, elem=blk, kind="tuple", over=tag + "blocks")
        if name == "fill_diagonal_":
            self.ev("inplace", node, alias=t.alias, target=name)
            if len(t.axes) == 2 and t.axes[0] != t.axes[1]:
                self.ev("type_error", node, why=f"diagonal of a matrix whose axes {t.axes} index different things")
                if "R" in t.axes or t.note.startswith("block-of-R") or "K" in t.axes:
                    self.clear("p", "fill_diagonal_ pairs position k of one axis with row k of the other: which entries are hit depends on the row order", node)
                return t.but(p=False, poly=None)
            vtxt = ast.unparse(node.args[0]) if isinstance(node, ast.Call) and node.args else ""
            return self.tag(t.but(poly=None), "fill_diagonal", node, value_text=vtxt.replace('"', "'"), in_origin=sorted(t.origin), axes=list(t.axes))
        if name in ("masked_fill", "masked_fill_") and len(args) == 2 and tv_of(args[0]) is not None:
            # entries where the mask holds are replaced by a constant: where(mask, value, t). Invariance flags as for `where`; the mask's
            # provenance is recorded so that rules can tell a positional mask (eye) from one computed from the values themselves
            mk = tv_of(args[0])
            if name.endswith("_"):
                self.ev("inplace", node, alias=t.alias, target=name)
            fl_ = dict(p=t.p and mk.p, q=t.q and mk.q, s=t.s and mk.s, z=t.z and mk.z)
            vtxt = ast.unparse(node.args[1]) if isinstance(node, ast.Call) and len(node.args) > 1 else ""
            out_ = t.but(poly=None, alias=t.alias and name.endswith("_"), origin=t.origin | frozenset(o if o.endswith(("#ctl", "#meta")) else o + "#ctl" for o in mk.origin), **fl_)
            return self.tag(out_, "masked_fill", node, value_text=vtxt.replace('"', "'"), in_origin=sorted(t.origin), mask_origin=sorted(mk.origin), axes=list(t.axes))
        if name == "diag":
            return self.diag(t, node)
        if name in ("normal_", "uniform_") and not args and not kwargs and not t.alias and t.kind == "tensor":
            # fresh.normal_() / fresh.uniform_(): the tensor is overwritten with standard normal / uniform(0, 1) draws from torch's global generator —
            # torch.randn / torch.rand of that shape, in the dtype of the tensor
            fn_ = "randn" if name == "normal_" else "rand"
            self.ev("rng", node, fn="torch." + fn_, torch_global=True)
            p_, q_ = "R" not in t.axes, "C" not in t.axes
            if not p_:
                self.clear("p", "random draw laid out along the row axis", node)
            if not q_:
                self.clear("q", "random draw laid out along the column axis", node)
            return self.tag(TV(kind=t.kind, axes=t.axes, p=p_, q=q_, s=q_, z=q_ and t.z, deg=F0, dtype=t.dtype, origin=frozenset(o for o in t.origin if o.endswith("#meta")), rng=True), fn_, node, axes=list(t.axes))
        if name in ("fill_", "zero_", "add_", "sub_", "mul_", "div_", "copy_", "clamp_", "abs_", "neg_", "sqrt_", "normal_",
                    "uniform_", "masked_fill_", "index_add_", "scatter_", "scatter_add_", "nan_to_num_", "sort_", "t_", "resize_",
                    "squeeze_", "unsqueeze_", "requires_grad_", "detach_", "set_", "transpose_", "pow_", "exp_", "floor_", "round_"):
            self.ev("inplace", node, alias=t.alias, target=name)
            if name in ("requires_grad_", "detach_"):
                self.ev("autograd_state", node, what=name)
            base = name[:-1]
            if base in ("add", "sub", "mul", "div") and args:
                r = self.call_lib("torch.", base, [t] + list(args), kwargs, node, env)
                return r.but(alias=t.alias) if isinstance(r, TV) else r
            return t.but(poly=None)
        if name in ("backward", "retain_grad", "register_hook"):
            self.ev("autograd_state", node, what=name)
            return NONE
        if name == "apply_" or name == "map_":
            return self.unk(name, node)
        # fall through to the functional form with the tensor as first argument
        return self.call_lib(lib, name, [t] + list(args), kwargs, node, env)

    def reshape(self, t: TV, name, args, kwargs, node):
        if name == "flatten":
            return t.but(axes=("K",) if len(t.axes) != 1 else t.axes, span=False)
        shape = args
        if len(args) == 1 and isinstance(args[0], ListV) and args[0].items is not None:
            shape = list(args[0].items)
        if name in ("view_as", "reshape_as"):
            o = tv_of(args[0])
            return t.but(axes=o.axes) if o is not None else self.unk(name, node)
        axes, flat = self.axes_from_sizes(shape, node)
        ints = [self.const_int(s) for s in flat]
        # (-1,) on a 1-d or n-d tensor: flatten
        if len(flat) == 1 and ints[0] == -1:
            return t.but(axes=(t.axes[0],) if len(t.axes) == 1 else ("K",), span=t.span and len(t.axes) == 1)
        # (x.shape[0], -1): keep first axis, flatten the rest
        out_axes = []
        for i, (a, c) in enumerate(zip(axes, ints)):
            if c == -1:
                rest = [x for x in t.axes if x not in out_axes and x not in axes]
                out_axes.append(rest[0] if len(rest) == 1 else "K")
            else:
                out_axes.append(a)
        self.ev("reshape", node, from_axes=list(t.axes), to_axes=out_axes)
        return t.but(axes=tuple(out_axes), span=False)

    def narrow(self, t: TV, args, kwargs, node):
        names = ["dim", "start", "length"]
        vals = dict(zip(names, args))
        vals.update({k: v for k, v in kwargs.items() if k in names})
        d = self.axis_of(t, vals.get("dim"), node)
        if d is None:
            return self.unk("narrow dim", node)
        r = self.slice_axis(t, d, ("slice", vals.get("start"), Const("len"), None), node, tag_it=False)
        return self.tag(r, "narrow", node, axis=t.axes[d], axis_pos=d, start_poly=self.poly_of(vals.get("start")),
                        length_poly=self.poly_of(vals.get("length")), in_origin=sorted(t.origin))

    def diag(self, t: TV, node):
        if len(t.axes) == 1:
            return t.but(axes=(t.axes[0], t.axes[0]), alias=False, span=False)
        if len(t.axes) == 2:
            tag = t.axes[0] if t.axes[0] == t.axes[1] else "K"
            return t.but(axes=(tag,), span=False)
        return self.unk("diag of >2-d", node)

    def einsum(self, spec: str, ops: list, node, env):
        """A few einsum patterns, read as the operator they spell: sums over axes of one operand (`ij->j`), its diagonal (`ii->i`),
        transposition (`ij->ji`), and the contraction of the last axis of one operand with the first of another (`ij,jk->ik`,
        `ij,j->i`, `i,i->`). Anything else: None."""
        if "->" not in spec or any(t is None for t in ops) or "." in spec:
            return None
        ins, out = spec.split("->")
        ins = ins.split(",")
        if len(ins) != len(ops) or any(len(i_) != len(t.axes) for i_, t in zip(ins, ops)):
            return None
        if len(ops) == 1:
            i_, t = ins[0], ops[0]
            if len(set(i_)) == len(i_) and set(out) <= set(i_) and len(set(out)) == len(out):
                if sorted(out) == sorted(i_):
                    return t if out == i_ else (self.tensor_method(t, "t", [], {}, node, env) if len(i_) == 2 else None)
                kept = [c for c in i_ if c in out]
                if "".join(kept) != out:
                    return None
                dims = [k for k, c in enumerate(i_) if c not in out]
                return self.reduce(t, "sum", ListV(items=tuple(Const(d) for d in dims)) if len(dims) > 1 else Const(dims[0]), False, node)
            if len(i_) == 2 and i_[0] == i_[1] and out == i_[0]:
                return self.diag(t, node)
            return None
        if len(ops) == 2:
            (a, b), (ta, tb) = ins, ops
            if a and b and a[-1] == b[0] and a[-1] not in out and out == a[:-1] + b[1:] and len(set(a)) == len(a) and len(set(b)) == len(b) and not (set(a[:-1]) & set(b[1:])):
                return self.matmul(ta, tb, node)
        # several operands of at most two axes each: folded pairwise from the left into products, broadcast products and transposes
        if any(len(set(i_)) != len(i_) or len(i_) > 2 for i_ in ins) or len(set(out)) != len(out) or len(out) > 2:
            return None
        T = lambda t: self.tensor_method(t, "t", [], {}, node, env)
        U = lambda t, d: self.tensor_method(t, "unsqueeze", [Const(d)], {}, node, env)
        S = lambda t, d: self.reduce(t, "sum", Const(d), False, node)
        M = lambda x, y: self.elementwise(x, y, "mul", node)

        def drop(idx, t, keep):
            for c in list(idx):
                if c not in keep:
                    t = S(t, idx.index(c))
                    idx = idx.replace(c, "")
            return idx, t

        def pair(ai, ta, bi, tb, keep):
            ai, ta = drop(ai, ta, keep | set(bi))
            bi, tb = drop(bi, tb, keep | set(ai))
            if not isinstance(ta, TV) or not isinstance(tb, TV):
                return None
            shared = [c for c in ai if c in bi]
            contracted = [c for c in shared if c not in keep]
            if len(contracted) == 1 and len(shared) == 1 and len(ai) <= 2 and len(bi) <= 2:
                c = contracted[0]
                if ai[-1] != c:
                    ai, ta = ai[::-1], T(ta)
                if bi[0] != c:
                    bi, tb = bi[::-1], T(tb)
                return ai[:-1] + bi[1:], self.matmul(ta, tb, node)
            # element-wise product with broadcasting, then the contracted axes are summed
            if len(bi) > len(ai):
                ai, ta, bi, tb = bi, tb, ai, ta
            if set(bi) <= set(ai):
                if bi == ai:
                    prod = M(ta, tb)
                elif len(bi) == 2 and bi == ai[::-1]:
                    prod = M(ta, T(tb))
                elif len(bi) == 1 and bi == ai[-1]:
                    prod = M(ta, tb)
                elif len(bi) == 1 and len(ai) == 2 and bi == ai[0]:
                    prod = M(ta, U(tb, 1))
                elif len(bi) == 0:
                    prod = M(ta, tb)
                else:
                    return None
                return drop(ai, prod, keep)
            if len(ai) == 1 and len(bi) == 1 and ai != bi:
                return ai + bi, M(U(ta, 1), U(tb, 0))  # outer product
            return None

        cur_i, cur = ins[0], ops[0]
        for k_ in range(1, len(ops)):
            keep = set(out) | set("".join(ins[k_ + 1:]))
            r_ = pair(cur_i, cur, ins[k_], ops[k_], keep)
            if r_ is None or not isinstance(r_[1], TV):
                return None
            cur_i, cur = r_
        cur_i, cur = drop(cur_i, cur, set(out))
        if not isinstance(cur, TV):
            return None
        if cur_i == out:
            return cur
        if len(out) == 2 and cur_i == out[::-1]:
            return T(cur)
        return None

    # =========================================================================== library functions
    def call_lib(self, lib, fn, args, kwargs, node, env):
        np_ = lib.startswith("numpy")
        kind = "ndarray" if np_ else "tensor"
        a0 = tv_of(args[0]) if args else None
        if "out" in kwargs and kwargs["out"] != NONE:
            o = tv_of(kwargs["out"])
            self.ev("inplace", node, alias=bool(o is not None and o.alias), target="out=")
            kwargs = {k: v for k, v in kwargs.items() if k != "out"}
        if fn == "isfinite" or fn in ("isnan", "isinf"):
            pass  # the finite_check event is recorded where the element-wise predicate is reduced to the whole question (reduce)
        elif fn in ("logical_or", "logical_and", "bitwise_or", "bitwise_and", "logical_not", "bitwise_not") and a0 is not None and a0.note.startswith("finite-test"):
            pass
        elif fn not in LIKE and a0 is not None and not a0.note.startswith("finite-test"):
            self.note_value_use(a0, node)
            if fn not in CREATORS and fn not in ("tensordot", "matmul", "mm", "mv", "dot", "inner", "bmm", "vdot", "add", "sub", "subtract", "mul", "multiply", "div", "divide", "true_divide", "pow", "power"):
                self.ev("op", node, op=fn, left=a0.short())
        # ---- RNG
        if fn in RNG_FUNCS or lib == "numpy.random.":
            self.ev("rng", node, fn=lib + fn, torch_global=(lib == "torch." and "generator" not in kwargs))
        # ---- creators
        if fn in CREATORS and lib in ("torch.", "numpy."):
            sizes = list(args)
            fill = None
            if fn == "full":
                fill = kwargs.get("fill_value", args[1] if len(args) > 1 else None)
                sizes = [kwargs.get("size", kwargs.get("shape", args[0] if args else None))]
            elif "size" in kwargs or "shape" in kwargs:
                sizes = [kwargs.get("size", kwargs.get("shape"))]
            axes, flat = self.axes_from_sizes(sizes, node)
            if fn in ("eye", "identity"):
                axes = (axes[0], axes[1] if len(axes) > 1 else axes[0])
            dtype = self.dtype_from_kwargs(kwargs, "F64" if np_ else "Default")
            deg = CREATORS[fn]
            poly = {"zeros": Poly.const(0), "ones": Poly.const(1)}.get(fn)
            origin = frozenset()
            fl = self.creation_flags(axes, flat)
            for s in flat:
                ts = tv_of(s)
                if ts is not None:
                    origin |= ts.origin
            if fn == "full":
                ft = tv_of(fill)
                if ft is None:
                    return self.unk("full with non-numeric fill", node)
                r = TV(kind=kind, axes=axes, p=ft.p, q=ft.q, s=ft.s, z=ft.z and fl["z"], deg=ft.deg, dtype=dtype,
                       origin=origin | ft.origin, poly=ft.poly, gen=ft.gen, rng=ft.rng)
                return r
            if fn in ("rand", "randn"):
                p = "R" not in axes
                q = "C" not in axes
                if not p:
                    self.clear("p", "random draw laid out along the row axis", node)
                if not q:
                    self.clear("q", "random draw laid out along the column axis", node)
                return self.tag(TV(kind=kind, axes=axes, p=p, q=q, s=q, z=q and fl["z"], deg=F0, dtype=dtype, origin=origin, rng=True),
                                fn, node, axes=list(axes))
            out = TV(kind=kind, axes=axes, deg=deg, dtype=dtype, origin=origin, poly=poly, z=fl["z"], span=deg == Z and "C" in axes)
            if fn in ("eye", "identity"):
                out = self.tag(out, "eye", node, axes=list(axes))
            return out
        if fn in LIKE:
            if a0 is None:
                return self.unk(fn, node)
            dtype = self.dtype_from_kwargs(kwargs, a0.dtype)
            org = frozenset(o if o.endswith("#meta") else o + "#meta" for o in a0.origin)
            if fn in ("rand_like", "randn_like"):
                p, q = "R" not in a0.axes, "C" not in a0.axes
                if not p:
                    self.clear("p", "random draw laid out along the row axis", node)
                if not q:
                    self.clear("q", "random draw laid out along the column axis", node)
                # rand_like(x) is rand(x.shape, dtype=x.dtype, device=x.device): the same structural operator
                return self.tag(TV(kind=kind, axes=a0.axes, p=p, q=q, s=q, z=q, deg=F0, dtype=dtype, origin=org, rng=True), fn[:-5], node, axes=list(a0.axes))
            if fn == "full_like":
                ft = tv_of(args[1] if len(args) > 1 else kwargs.get("fill_value"))
                return TV(kind=kind, axes=a0.axes, deg=ft.deg if ft else None, dtype=dtype, origin=org, poly=ft.poly if ft else None)
            return TV(kind=kind, axes=a0.axes, deg=LIKE[fn], dtype=dtype, origin=org, span=LIKE[fn] == Z and "C" in a0.axes,
                      poly={"zeros_like": Poly.const(0), "ones_like": Poly.const(1)}.get(fn), note="uninitialised" if fn == "empty_like" else "")
        if fn == "randperm":
            n = tv_of(args[0])
            tag = n.size_of if n is not None else None
            if tag == "R":
                self.clear("p", "random permutation of the row indices", node)
            return TV(kind=kind, axes=("K",), p=tag != "R", deg=F0, dtype="Int", idx_of=tag, rng=True)
        if fn == "arange":
            n = tv_of(args[-1] if len(args) <= 2 else args[1])
            tag = n.size_of if n is not None and len(args) == 1 else None
            if tag == "R":
                self.clear("p", "arange along the row axis is position dependent", node)
            return TV(kind=kind, axes=(tag or "K",), p=tag != "R", q=tag != "C", s=tag != "C", z=tag != "C", deg=F0, dtype="Int", idx_of=tag,
                      note="arange-full" if len(args) == 1 else "")
        if fn in ("triu_indices", "tril_indices") and lib == "torch." and len(args) >= 2:
            # the (row, column) positions of a triangle of an r x c matrix, row-major: kept as the pair of index vectors it unpacks into
            r_, c_ = tv_of(args[0]), tv_of(args[1])
            o_ = self.const_int(kwargs.get("offset", args[2] if len(args) > 2 else Const(0)))
            square = r_ is not None and c_ is not None and r_.size_of == "R" and c_.size_of == "R"
            name_ = f"{fn[:4]}{o_}" if square and o_ is not None else "tri?"
            mk_ = lambda which: TV(kind=kind, axes=("K",), p=False, deg=F0, dtype="Int", idx_of="R" if square else None, note=f"{name_}:{which}")
            return ListV(items=(mk_("rows"), mk_("cols")), kind="tuple")
        if fn == "pdist" and a0 is not None:
            # torch.pdist(x, p=2): the distances between the pairs of rows (i < j), listed like the upper triangle read row by row; computed from the differences
            pv = kwargs.get("p", args[1] if len(args) > 1 else None)
            pn = 2 if pv is None else (tv_of(pv).poly.const_value() if tv_of(pv) is not None and tv_of(pv).poly is not None else None)
            raw_ = a0.alias and tuple(a0.axes) == ("R", "C") and a0.origin == frozenset(["matrix"])
            if pn != 2 and a0.q:
                self.clear("q", f"pdist with p={pn} is not invariant under orthogonal maps", node)
            return TV(kind=kind, axes=("K",), p=False, q=a0.q and pn == 2, s=a0.s, z=a0.z, deg=a0.deg, dtype=a0.dtype, origin=a0.origin, gen=a0.gen, rng=a0.rng,
                      note=f"pdist:{pn}" if raw_ else "")
        if fn in ("tensor", "as_tensor", "from_numpy", "array", "asarray", "ascontiguousarray"):
            if a0 is None:
                src = args[0] if args else None
                if isinstance(src, ListV):
                    e = src.elem if src.items is None else self.set_elem(SetV(items=src.items))
                    te = tv_of(e) if e is not None else None
                    if te is not None:
                        return te.but(kind=kind, axes=(src.over or "K",) + te.axes, dtype=self.dtype_from_kwargs(kwargs, "Default" if not np_ else "F64"), alias=False)
                return self.unk(f"{fn} of non-numeric", node)
            dflt = a0.dtype if not a0.is_py else ("F64" if np_ else "Default")
            return a0.but(kind=kind, dtype=self.dtype_from_kwargs(kwargs, dflt), alias=a0.alias and fn != "tensor" and fn != "array")
        if fn == "device":
            return MetaV("device")
        if fn == "finfo":
            d = args[0] if args else None
            tag = d.tag if isinstance(d, MetaV) else "Default"
            return TV(kind="pyfloat", note="finfo:" + tag, dtype="Py")
        if fn in ("is_tensor", "is_floating_point"):
            return TV(kind="pybool", dtype="Bool")
        if a0 is None and fn not in ("cat", "concatenate", "stack", "vstack", "hstack", "vmap", "grad", "backward", "apply_along_axis", "block_diag", "multi_dot", "ndindex", "einsum"):
            return self.unk(f"{lib}{fn} on non-numeric argument", node)

        if fn in ("isfinite", "isnan", "isinf"):
            # finiteness is preserved by row/column permutations, orthogonal maps and zero columns: the test is
            # typed invariant (it is consumed through all()/any())
            whole_input = a0.alias and a0.origin == frozenset(["matrix"]) and a0.axes == ("R", "C")
            return a0.but(dtype="Bool", deg=F0, alias=False, span=False, poly=None,
                          note=({"isfinite": "finite-test", "isnan": "finite-test:nan", "isinf": "finite-test:inf"}[fn] if whole_input else "finite-test:other"))
        if fn in ("logical_or", "bitwise_or", "logical_and", "bitwise_and") and a0 is not None and a0.note.startswith("finite-test") and len(args) > 1:
            import ast as _ast
            return self.bitop(args[0], _ast.BitOr() if fn.endswith("or") else _ast.BitAnd(), args[1], node, env)
        if fn in ("logical_not", "bitwise_not") and a0 is not None and a0.note.startswith("finite-test"):
            import ast as _ast
            return self.unary(_ast.Invert(), args[0], node, env)
        # ---- element-wise unary
        if fn in UNARY_FUNCS:
            rule, zero_ok = UNARY_FUNCS[fn]
            deg = a0.deg
            if rule == "half":
                deg = deg_scale(a0.deg, HALF)
            elif rule == "double":
                deg = deg_scale(a0.deg, 2)
            elif rule == "neg":
                deg = deg_scale(a0.deg, -1)
            elif rule == "neghalf":
                deg = deg_scale(a0.deg, Fraction(-1, 2))
            elif rule == "sign":
                deg = F0 if a0.deg is not None else None
            elif rule == "zero-only":
                if a0.deg not in (F0, Z):
                    self.ev("scale_branch", node, left=str(a0.deg), right="0", why=f"{fn} of a quantity of degree {a0.deg} is not homogeneous")
                    deg = None
                else:
                    deg = F0
            has_c = "C" in a0.axes
            q = a0.q and (not has_c or fn in ("neg", "negative"))
            if a0.q and not q:
                self.clear("q", f"element-wise {fn} over the column axis", node)
            dtype = "Bool" if fn in ("isfinite", "isnan", "isinf", "logical_not") else a0.dtype
            return a0.but(deg=deg, q=q, z=a0.z and (zero_ok or not has_c), alias=False, span=a0.span and fn in ("neg", "negative"),
                          poly=(-a0.poly if fn in ("neg", "negative") and a0.poly is not None else None), dtype=dtype, idx_of=None, size_of=None)
        if fn in ("nan_to_num",):
            self.ev("assumption", node, what="nan_to_num treated as identity on finite values")
            return a0.but(alias=False)
        if fn in ("clamp", "clip", "clamp_min", "clamp_max", "maximum", "minimum", "fmax", "fmin", "threshold", "hardtanh"):
            bounds = [tv_of(x) for x in list(args[1:]) + [kwargs.get("min"), kwargs.get("max")] if x is not None and x != NONE]
            out = a0
            for b in bounds:
                if b is None:
                    continue
                if not (b.deg == a0.deg or b.deg == Z or a0.deg == Z):
                    self.ev("scale_branch", node, left=str(a0.deg), right=str(b.deg),
                            why=f"{fn} compares a degree-{a0.deg} quantity with a degree-{b.deg} bound")
                out = self.elementwise(out, b, "max", node)
            return out.but(alias=False, poly=None)
        if fn == "lerp" and len(args) + (1 if "weight" in kwargs else 0) + (1 if "end" in kwargs else 0) == 3:
            # lerp(a, b, w) = a + w * (b - a)
            b_, w_ = tv_of(args[1] if len(args) > 1 else kwargs["end"]), tv_of(args[2] if len(args) > 2 else kwargs["weight"])
            if b_ is not None and w_ is not None:
                return self.elementwise(a0, self.elementwise(w_, self.elementwise(b_, a0, "sub", node), "mul", node), "add", node)
        if fn in ("addcmul", "addcdiv") and len(args) == 3:
            # addcmul(a, t1, t2, value=v) = a + v * t1 * t2
            t1, t2 = tv_of(args[1]), tv_of(args[2])
            if t1 is not None and t2 is not None:
                pr = self.elementwise(t1, t2, "mul" if fn == "addcmul" else "div", node)
                v_ = tv_of(kwargs["value"]) if "value" in kwargs else None
                if v_ is not None:
                    pr = self.elementwise(v_, pr, "mul", node)
                return self.elementwise(a0, pr, "add", node)
        if fn == "where":
            c, x, y = (tv_of(v) for v in (args + [None, None])[:3])
            if x is None or y is None:
                return self.unk("where with one argument", node)
            r = self.elementwise(x, y, "max", node)
            out = self.elementwise(r, c.but(deg=Z), "add", node).but(deg=r.deg, poly=None)
            # the condition selects, it does not contribute a value: its provenance is kept apart (`#ctl`) like the test of an if statement
            ctl = frozenset(o if o.endswith(("#ctl", "#meta")) else o + "#ctl" for o in c.origin)
            return out.but(origin=x.origin | y.origin | ctl)
        if fn == "normalize":
            # F.normalize(x, p=2, dim=1, eps=1e-12): x / max(||x||, eps): absolute epsilon
            self.ev("scale_branch", node, left=str(a0.deg), right="0",
                    why="torch.nn.functional.normalize clamps the norm with an absolute eps (1e-12)")
            return a0.but(deg=None, alias=False, span=a0.span)
        if fn in ("cosine_similarity",) or (fn == "pairwise_distance" and not (len(args) >= 2 and tv_of(args[1]) is not None)):
            self.ev("scale_branch", node, left=str(a0.deg), right="0", why=f"{fn} uses an absolute eps")
            return self.unk(fn, node)
        if fn == "softmax" or fn == "log_softmax":
            d = self.axis_of(a0, kwargs.get("dim", args[1] if len(args) > 1 else None), node)
            if a0.deg not in (F0, Z):
                self.ev("scale_branch", node, left=str(a0.deg), right="0", why="softmax of a non degree-0 quantity")
            fl = {}
            if d is not None and a0.axes[d] == "C":
                fl = self.lose_axis_flags(a0, "C", "ext", node)
            out = a0.but(deg=F0 if a0.deg in (F0, Z) else None, alias=False, poly=None, **fl)
            return self.tag(out, fn, node, axis=a0.axes[d] if d is not None else "?", in_origin=sorted(a0.origin), in_axes=list(a0.axes))
        if fn == "isin" and len(args) >= 2:
            # isin(arange(m), idx): indicator vector of the positions listed in idx (== one_hot(idx, m).sum(0) for distinct idx)
            e, idx = a0, tv_of(args[1])
            if idx is not None and e.idx_of is not None and idx.idx_of == e.idx_of:
                out = TV(kind=kind, axes=e.axes, p=idx.p, q=idx.q, s=idx.s, z=idx.z, deg=F0, dtype="Bool", origin=e.origin | idx.origin, gen=idx.gen, rng=idx.rng)
                return self.tag(out, "isin", node, in_idx_of=idx.idx_of, in_origin=sorted(idx.origin), size_poly=self.size_tv(e, 0).poly if e.axes else None, range_full=bool(e.note == "arange-full"))
            return self.unk("isin of values that are not indices of one axis", node)
        if fn == "take_along_dim" and len(args) >= 2:
            idx = tv_of(args[1])
            dim = kwargs.get("dim", args[2] if len(args) > 2 else None)
            d = self.axis_of(a0, dim, node) if dim is not None else None
            if idx is not None and d is not None and idx.idx_of == a0.axes[d] and len(idx.axes) == len(a0.axes):
                # gathering along an axis with indices of that axis: the result has the index tensor's axes (e.g. the trimmed window of an argsort)
                fl = dict(p=a0.p and idx.p, q=a0.q and idx.q, s=a0.s and idx.s, z=a0.z and idx.z)
                out = a0.but(axes=idx.axes, alias=False, span=False, poly=None, origin=a0.origin | idx.origin, gen=a0.gen | idx.gen, rng=a0.rng or idx.rng, **fl)
                return self.tag(out, "take_along_dim", node, axis=a0.axes[d], axis_pos=d, in_origin=sorted(a0.origin), idx_origin=sorted(idx.origin), raw=a0.origin == frozenset(["matrix"]))
            return self.unk("take_along_dim with indices of another axis", node)
        if fn == "multi_dot":
            lst = args[0]
            items = list(lst.items) if isinstance(lst, ListV) and lst.items is not None else None
            if not items:
                return self.unk("multi_dot of an abstract list", node)
            out = tv_of(items[0])
            for x in items[1:]:
                b = tv_of(x)
                if out is None or b is None:
                    return self.unk("multi_dot of non-tensors", node)
                out = self.matmul(out, b, node)
            return out
        if fn == "square":
            return self.elementwise(a0, a0, "mul", node)
        if fn == "atleast_1d":
            return a0 if a0.axes else a0.but(axes=("1",))
        if fn == "one_hot":
            n = tv_of(kwargs.get("num_classes", args[1] if len(args) > 1 else None))
            tag = n.size_of if n is not None and n.size_of else "K"
            ok = a0.idx_of == tag
            if not ok and tag == "R":
                self.clear("p", "one_hot of values that are not row indices", node)
            out = TV(kind=kind, axes=a0.axes + (tag,), p=a0.p and (ok or tag != "R"), q=a0.q, s=a0.s, z=a0.z, deg=F0, dtype="Int",
                     origin=a0.origin, gen=a0.gen, rng=a0.rng)
            return self.tag(out, "one_hot", node, classes_poly=n.poly if n is not None else None, in_idx_of=a0.idx_of, in_origin=sorted(a0.origin))

        if fn == "bincount" and a0 is not None and len(a0.axes) == 1 and "weights" not in kwargs and len(args) == 1:
            # bincount(indices, minlength=n): how often each position occurs — for distinct indices the sum of their one-hot vectors
            n = tv_of(kwargs.get("minlength"))
            tag = n.size_of if n is not None and n.size_of else "K"
            ok = a0.idx_of == tag
            if not ok and tag == "R":
                self.clear("p", "bincount of values that are not row indices", node)
            out = TV(kind=kind, axes=(tag,), p=a0.p and (ok or tag != "R"), q=a0.q, s=a0.s, z=a0.z, deg=F0, dtype="Int", origin=a0.origin, gen=a0.gen, rng=a0.rng)
            return self.tag(out, "bincount", node, classes_poly=n.poly if n is not None else None, in_idx_of=a0.idx_of, in_origin=sorted(a0.origin))

        # ---- reductions
        if fn in SYM_REDUCTIONS or fn == "vector_norm" or fn == "matrix_norm":
            f2 = "norm" if fn in ("vector_norm", "matrix_norm") else fn
            dim = kwargs.get("dim", kwargs.get("axis"))
            ord_ = kwargs.get("ord", kwargs.get("p"))
            rest = list(args[1:])
            if f2 == "norm":
                # torch.norm(x, p, dim) / torch.linalg.norm(x, ord, dim) / np.linalg.norm(x, ord, axis) / x.norm(p, dim)
                if rest:
                    ord_ = rest[0]
                if len(rest) > 1 and dim is None:
                    dim = rest[1]
            elif rest and dim is None:
                dim = rest[0]
            if fn in ("max", "min") and rest and tv_of(rest[0]) is not None and not tv_of(rest[0]).is_py:
                return self.elementwise(a0, tv_of(rest[0]), "max", node)
            o = None
            if ord_ is not None and ord_ != NONE:
                o = self.const_int(ord_)
                if o is None and isinstance(ord_, Const):
                    o = ord_.v
                if o is None:
                    o = "?"
            keep = self.interp.truth(kwargs.get("keepdim", kwargs.get("keepdims", FALSE))) or False
            r = self.reduce(a0, f2, dim, keep, node, ord_=o)
            if isinstance(r, TV) and fn in ("sum", "mean", "prod", "nansum", "norm", "vector_norm") and kwargs.get("dtype") not in (None, NONE):
                r = r.but(dtype=self.dtype_from_kwargs(kwargs, r.dtype, node))  # sum(x, dtype=d): the result is of dtype d
            if fn in ("max", "min", "median") and dim is not None and not np_ and isinstance(r, TV):
                idx = self.arg_reduce(a0, "arg" + fn, dim, node)
                return ListV(items=(r, idx), kind="tuple")
            return r
        if fn in ARG_REDUCTIONS:
            dim = kwargs.get("dim", kwargs.get("axis", args[1] if len(args) > 1 else None))
            return self.arg_reduce(a0, fn, dim, node)
        if fn in ("sort", "argsort", "topk", "msort", "kthvalue"):
            dim = kwargs.get("dim", kwargs.get("axis"))
            if dim is None:
                pos = {"sort": 1, "argsort": 1, "topk": 2, "kthvalue": 2}.get(fn)
                if pos is not None and len(args) > pos:
                    dim = args[pos]
            if fn == "msort":
                dim = Const(0)  # msort sorts along the first dimension
            extra = {}
            if fn == "topk":
                extra = dict(k_poly=self.poly_of(kwargs.get("k", args[1] if len(args) > 1 else None)),
                             largest=self.interp.truth(kwargs.get("largest", args[3] if len(args) > 3 else TRUE)),
                             sorted=self.interp.truth(kwargs.get("sorted", args[4] if len(args) > 4 else TRUE)))
            else:
                extra = dict(descending=self.interp.truth(kwargs.get("descending", args[2] if len(args) > 2 else FALSE)))
            vals, idxs = self.sort_like(a0, fn, dim, node, extra=extra)
            if fn == "topk" and self.interp.truth(kwargs.get("sorted", args[4] if len(args) > 4 else TRUE)) is not True:
                vals = vals.but(axes=tuple("U" if a == "K" and i == len(vals.axes) - 1 else a for i, a in enumerate(vals.axes)))
                idxs = idxs.but(axes=vals.axes)
            if fn == "argsort":
                return idxs
            if fn == "msort":
                return vals
            return ListV(items=(vals, idxs), kind="tuple")
        if fn in ("cumsum", "cumprod", "flip", "roll", "fliplr", "flipud", "cummax", "cummin", "diff"):
            dim = kwargs.get("dim", kwargs.get("dims", kwargs.get("axis", args[1] if len(args) > 1 else None)))
            if isinstance(dim, ListV) and dim.items:
                dim = dim.items[0]
            d = self.axis_of(a0, dim, node)
            if fn == "flipud":
                d = 0
            if fn == "fliplr":
                d = 1
            if d is None:
                return a0.but(p=False, q=False, s=False, z=False, alias=False)
            fl = self.lose_axis_flags(a0, a0.axes[d], "scan", node)
            self.ev("reorder", node, fn=fn, axis=a0.axes[d])
            return a0.but(alias=False, span=False, **fl)

        # ---- linear algebra
        if fn in ("matmul", "mm", "mv", "dot", "inner", "bmm", "vdot"):
            b = tv_of(args[1])
            return self.matmul(a0, b, node) if b is not None else self.unk(fn, node)
        if fn == "tensordot" and len(args) >= 2:
            # tensordot(a, b, dims=1) contracts the last axis of a with the first of b: the matrix product
            dims = kwargs.get("dims", args[2] if len(args) > 2 else None)
            b = tv_of(args[1])
            if b is not None and isinstance(dims, Const) and dims.v == 1:
                return self.matmul(a0, b, node)
            return self.unk(fn, node)
        if fn in ("add", "sub", "subtract", "mul", "multiply", "div", "divide", "true_divide", "pow", "power"):
            b = tv_of(args[1])
            op = {"subtract": "sub", "multiply": "mul", "divide": "div", "true_divide": "div", "power": "pow"}.get(fn, fn)
            return self.elementwise(a0, b, op, node) if b is not None else self.unk(fn, node)
        if fn in ("gt", "lt", "ge", "le", "eq", "ne", "greater", "less"):
            op = {"gt": ast.Gt, "greater": ast.Gt, "lt": ast.Lt, "less": ast.Lt, "ge": ast.GtE, "le": ast.LtE, "eq": ast.Eq, "ne": ast.NotEq}[fn]()
            return self.compare(a0, op, args[1], node, env)
        if fn == "outer":
            b = tv_of(args[1])
            return self.elementwise(a0.but(axes=a0.axes + ("1",)), b, "mul", node)
        if fn in ("svd",):
            return self.svd(a0, kwargs, node, lib)
        if fn == "svdvals":
            r_ = self.svd(a0, kwargs, node, lib)
            return r_.items[1] if isinstance(r_, ListV) else r_
        if fn in ("eigh", "eig", "eigvalsh", "eigvals"):
            self.interp.may_raise(["LinAlgError"], node, fn)
            if len(a0.axes) != 2:
                return self.unk("eigh of non-matrix", node)
            tag = a0.axes[0]
            vals = a0.but(axes=("K",), alias=False, span=False)
            vecs = a0.but(axes=(tag, "K"), deg=F0 if a0.deg is not None else None, alias=False, span=False)
            if fn in ("eigvalsh", "eigvals"):
                return vals
            return ListV(items=(vals, vecs), kind="tuple")
        if fn in ("pinv", "inv"):
            self.interp.may_raise(["RuntimeError", "LinAlgError"], node, fn)
            if len(a0.axes) != 2:
                return self.unk(f"{fn} of non-matrix", node)
            if any(k in kwargs for k in ("rcond", "rtol", "atol")):
                self.ev("pinv_tol", node, kw=[k for k in kwargs])
                atol = tv_of(kwargs.get("atol")) if "atol" in kwargs else None
                if atol is not None and atol.deg != Z:
                    self.ev("scale_branch", node, left=str(a0.deg), right=str(atol.deg), why="pinv with an absolute tolerance")
            zz = a0.z
            if fn == "pinv" and "C" in a0.axes and not any(k in kwargs for k in ("rcond", "rtol", "atol")) and len(args) < 2:
                # default rtol = max(rows, cols)·eps: the truncation threshold depends on the number of columns
                if zz:
                    self.clear("z", "torch.linalg.pinv of a matrix with a column axis uses the default tolerance max(m, n)·eps, which grows with the number of columns", node)
                zz = False
            return a0.but(axes=(a0.axes[1], a0.axes[0]), deg=deg_scale(a0.deg, -1), alias=False, z=zz)
        if fn in ("cholesky", "cholesky_ex") and len(a0.axes) == 2:
            # A = L·Lᵀ. The factor itself is not equivariant under a simultaneous permutation of rows and columns; what is done with it
            # (cholesky_solve) is, when A is positive definite. It exists only for positive definite A: a bare Gramian J·Jᵀ is singular as soon
            # as rows are linearly dependent, and then the factorisation fails or 'succeeds' on rounding noise.
            if fn == "cholesky":
                self.interp.may_raise(["LinAlgError", "RuntimeError"], node, "cholesky")
            bare = a0.origin <= frozenset(["matrix"]) or all(o == "matrix" or o.startswith(("matmul#", "gramian")) for o in a0.origin)
            L = self.tag(a0.but(alias=False, poly=None, deg=deg_scale(a0.deg, Fraction(1, 2)) if a0.deg is not None else None, note="cholesky-factor"), "cholesky", node,
                         in_origin=sorted(a0.origin), bare_gramian=bool(bare and a0.deg == Fraction(2)), p_in=a0.p, q_in=a0.q, s_in=a0.s, z_in=a0.z, deg_in=str(a0.deg))
            self._chol_src = getattr(self, "_chol_src", {})
            tid_ = next((o for o in L.origin if o.startswith("cholesky#")), None)
            self._chol_src[tid_] = a0
            if fn == "cholesky_ex":
                return ListV(items=(L, TV(kind=kind, axes=(), deg=F0, dtype="Int", origin=a0.origin, note="cholesky-info")), kind="tuple")
            return L
        if fn == "cholesky_solve" and len(args) >= 2 and tv_of(args[1]) is not None:
            L = tv_of(args[1])
            tid_ = next((o for o in L.origin if o.startswith("cholesky#")), None)
            src = getattr(self, "_chol_src", {}).get(tid_)
            if src is None:
                return self.unk("cholesky_solve with a factor of unknown provenance", node)
            # solves A x = b with A = L·Lᵀ: typed like solve(A, b)
            return self.matmul(src.but(axes=(src.axes[1], src.axes[0]), deg=deg_scale(src.deg, -1)), a0, node)
        if fn in ("solve", "lstsq"):
            b = tv_of(args[1])
            return self.matmul(a0.but(axes=(a0.axes[1], a0.axes[0]), deg=deg_scale(a0.deg, -1)), b, node)
        if fn == "pairwise_distance" and len(args) >= 2 and tv_of(args[1]) is not None:
            # F.pairwise_distance(x1, x2, p=2, eps=1e-6): ||x1 - x2 + eps||_p over the last axis — the default eps is added to every coordinate of the difference
            b = tv_of(args[1])
            pv = kwargs.get("p", args[2] if len(args) > 2 else None)
            pn = 2 if pv is None else (tv_of(pv).poly.const_value() if tv_of(pv) is not None and tv_of(pv).poly is not None else None)
            ev_ = kwargs.get("eps", args[3] if len(args) > 3 else Const(1e-6))
            eps0 = isinstance(ev_, Const) and ev_.v == 0
            d_ = self.elementwise(a0, b, "sub", node)
            if isinstance(d_, TV) and not eps0:
                et = tv_of(ev_)
                d_ = self.elementwise(d_, et, "add", node) if et is not None else self.unk("pairwise_distance eps", node)
            if not isinstance(d_, TV):
                return d_
            out_ = self.reduce(d_, "norm", Const(-1), bool(self.interp.truth(kwargs.get("keepdim", FALSE))), node, ord_=pn)
            rawv = lambda t, ax: t.alias and t.origin == frozenset(["matrix"]) and tuple(t.axes) == ax
            if isinstance(out_, TV) and ((rawv(a0, ("R", "1", "C")) and rawv(b, ("1", "R", "C"))) or (rawv(a0, ("1", "R", "C")) and rawv(b, ("R", "1", "C")))):
                # all pairs of rows of the input: the matrix torch.cdist(matrix, matrix) computes, from exact differences (plus eps per coordinate unless eps=0)
                out_ = out_.but(origin=frozenset(o for o in out_.origin if not o.startswith("reduce#")))  # the norm is part of the distance, not a reduction of it
                out_ = self.tag(out_, "cdist", node, p=str(pn), compute_mode="donot_use_mm_for_euclid_dist", both_raw=True, eps=None if eps0 else repr(ev_))
            return out_
        if fn == "cdist":
            b = tv_of(args[1])
            pv = kwargs.get("p", args[2] if len(args) > 2 else None)
            pn = 2 if pv is None else (tv_of(pv).poly.const_value() if tv_of(pv) is not None and tv_of(pv).poly is not None else None)
            cm = kwargs.get("compute_mode", args[3] if len(args) > 3 else None)
            fl = dict(p=a0.p and b.p, q=a0.q and b.q, s=a0.s and b.s, z=a0.z and b.z)
            if pn != 2:
                if fl["q"]:
                    self.clear("q", f"cdist with p={pn} is not invariant under orthogonal maps", node)
                fl["q"] = False
            if a0.axes[-1] != "C" or b.axes[-1] != "C":
                self.ev("type_error", node, why="cdist over a non-column axis")
            out = TV(kind=kind, axes=(a0.axes[0], b.axes[0]), deg=deg_sum(a0.deg, b.deg), dtype=self.promote(a0.dtype, b.dtype),
                     origin=a0.origin | b.origin, gen=a0.gen | b.gen, rng=a0.rng or b.rng, **fl)
            raw = lambda t: t.alias and t.axes == ("R", "C") and t.origin == frozenset(["matrix"])
            return self.tag(out, "cdist", node, p=str(pn), compute_mode=cm.v if isinstance(cm, Const) else None, both_raw=raw(a0) and raw(b))
        if fn == "diag":
            return self.diag(a0, node)
        if fn == "diag_embed" and a0 is not None and len(a0.axes) == 1 and len(args) == 1 and not kwargs:
            return self.diag(a0, node)  # on a vector, diag_embed is diag
        if fn == "einsum" and args and isinstance(args[0], Const) and isinstance(args[0].v, str) and not kwargs:
            r_ = self.einsum(args[0].v.replace(" ", ""), [tv_of(x) for x in args[1:]], node, env)
            if r_ is not None:
                return r_
            return self.unk(f"einsum pattern {args[0].v!r}", node)
        if fn == "diagonal":
            return self.diag(a0, node) if len(a0.axes) == 2 else self.unk("diagonal", node)
        if fn == "trace":
            r = self.diag(a0, node)
            return r.but(axes=()) if isinstance(r, TV) else r
        if fn in ("transpose", "swapaxes", "t", "squeeze", "unsqueeze", "reshape", "narrow", "flatten", "clone", "detach", "numel", "expand_dims", "ravel"):
            return self.tensor_method(a0, fn if fn != "expand_dims" else "unsqueeze", args[1:], kwargs, node, env)
        if fn in ("isfinite",):
            return a0.but(dtype="Bool", deg=F0)
        if fn in ("matrix_rank",):
            return TV(kind=kind, axes=(), deg=F0, dtype="Int", p=a0.p, q=a0.q, s=a0.s, z=a0.z)
        if fn == "isclose" and len(args) >= 2 and tv_of(args[1]) is not None:
            # isclose(a, b, rtol=r, atol=t) is |a - b| <= t + r·|b| — inclusive; the defaults are r = 1e-5 and t = 1e-8 (an ABSOLUTE term that is there
            # even when only rtol is passed)
            b_ = tv_of(args[1])
            diff = self.elementwise(a0, b_, "sub", node)
            diff = self.call_lib(lib, "abs", [diff], {}, node, env)
            atol = kwargs.get("atol", args[3] if len(args) > 3 else Const(1e-8))
            rtol = kwargs.get("rtol", args[2] if len(args) > 2 else Const(1e-5))
            bound = tv_of(atol)
            if not (isinstance(rtol, Const) and rtol.v in (0, 0.0)) and b_.deg != Z and tv_of(rtol) is not None and bound is not None:
                bound = self.elementwise(bound, self.elementwise(tv_of(rtol), self.call_lib(lib, "abs", [b_], {}, node, env), "mul", node), "add", node)
            if bound is not None:
                return self.compare(diff, ast.LtE(), bound, node, env)
        if fn == "allclose" or fn == "equal" or fn == "array_equal":
            return TV(kind="pybool", dtype="Bool")

        # ---- packing
        if fn in ("cat", "concatenate", "stack", "vstack", "hstack"):
            return self.pack(fn, args, kwargs, node, kind)
        if fn == "apply_along_axis":
            return self.apply_along_axis(args, kwargs, node, env)
        if fn == "ndindex" and not kwargs:
            # the index tuples of an array of the given shape, in row-major order
            sizes = list(args[0].items) if len(args) == 1 and isinstance(args[0], ListV) and args[0].items is not None else list(args)
            if not sizes:
                return ListV(items=(ListV(items=(), kind="tuple"),))
            ts = [tv_of(x) for x in sizes if not isinstance(x, tuple)]
            if len(ts) == len(sizes) == 1 and ts[0] is not None and ts[0].size_of is not None:
                tag = ts[0].size_of
                idx = TV(kind="pyint", idx_of=tag, note="range-index", p=True, origin=frozenset(["loop-index"]))
                return ListV(items=None, elem=ListV(items=(idx,), kind="tuple"), kind="list", over=tag if tag == "R" else None, order=(("range", repr(ts[0].poly)), "same"))
            return self.unk("ndindex over these extents", node)
        if fn == "vmap":
            self.ev("vmap", node)
            return VmapV(args[0])
        if fn in ("split", "tensor_split") and a0 is not None:
            return self.tensor_method(a0, fn, args[1:], kwargs, node, env)
        if lib == "torch.autograd." and fn in ("grad", "backward"):
            return self.autograd(fn, args, kwargs, node, env)
        return self.unk(f"operator {lib}{fn}", node)

    def svd(self, a0: TV, kwargs, node, lib):
        self.interp.may_raise(["LinAlgError"], node, "svd")
        if len(a0.axes) != 2:
            return self.unk("svd of non-matrix", node)
        r, c = a0.axes
        base = dict(alias=False, span=False, poly=None)
        U = a0.but(axes=(r, "K"), deg=F0 if a0.deg is not None else None, **base)
        S = self.tag(a0.but(axes=("K",), **base), "svd_S", node, in_origin=sorted(a0.origin), raw=a0.alias and a0.origin == frozenset(["matrix"]))
        # the right factor is *not* Q-invariant: V -> Q^T V
        V = a0.but(axes=("K", c) if lib.endswith("linalg.") else (c, "K"), deg=F0 if a0.deg is not None else None, **base)
        if c == "C":
            V = V.but(note="svd-right-factor")
        return ListV(items=(U, S, V), kind="tuple")

    def pack(self, fn, args, kwargs, node, kind):
        seq = args[0]
        dim = kwargs.get("dim", kwargs.get("axis", args[1] if len(args) > 1 else None))
        d = self.const_int(dim) if dim is not None else (0)
        lst = self.to_list(seq, "list", node)
        if not isinstance(lst, ListV):
            return self.unk(f"{fn} of non-sequence", node)
        blocks_of = lst.over[:-6] if lst.items is None and isinstance(lst.over, str) and lst.over.endswith("blocks") else None
        if lst.items is not None:
            tvs = [tv_of(x) for x in lst.items]
            if not tvs or any(t is None for t in tvs):
                return self.unk(f"{fn} of non-tensors", node)
            e = tvs[0]
            for t in tvs[1:]:
                e = join(e, t)
            if not isinstance(e, TV):
                return self.unk(f"{fn}: {e!r}", node)
            new_tag = "K"
        else:
            e = tv_of(lst.elem) if lst.elem is not None else None
            if e is None:
                return self.unk(f"{fn} of unknown elements", node)
            new_tag = lst.over or "K"
        self.ev("pack", node, fn=fn, order=repr(lst.order), over=lst.over, dim=d)
        if fn == "stack":
            dd = d if d is not None and d >= 0 else (len(e.axes) + 1 + (d or 0))
            axes = e.axes[:dd] + (new_tag,) + e.axes[dd:]
        elif fn == "vstack":
            axes = (new_tag,) + (e.axes if len(e.axes) == 1 else e.axes[1:])
        else:
            dd = (1 if fn == "hstack" and len(e.axes) > 1 else (d or 0))
            if dd < 0:
                dd += len(e.axes)
            if not e.axes:
                return self.unk("cat of 0-d", node)
            axes = e.axes[:dd] + ("K" if e.axes[dd] not in ("R", "C") or lst.items is not None or True else e.axes[dd],) + e.axes[dd + 1:]
            if e.axes[dd] in ("R",) and lst.over is None:
                axes = e.axes[:dd] + ("K",) + e.axes[dd + 1:]
            if blocks_of and e.axes[dd] == "K":
                axes = e.axes[:dd] + (blocks_of,) + e.axes[dd + 1:]
        return e.but(kind=kind, axes=axes, alias=False, span=False, poly=None, layout=((lst.order, fn, d),))

    def apply_along_axis(self, args, kwargs, node, env):
        f = args[0] if args else kwargs.get("func1d")
        axis = kwargs.get("axis", args[1] if len(args) > 1 else None)
        arr = tv_of(kwargs.get("arr", args[2] if len(args) > 2 else None))
        if arr is None:
            return self.unk("apply_along_axis", node)
        d = self.axis_of(arr, axis, node)
        if d is None:
            return self.unk("apply_along_axis axis", node)
        fibre = arr.but(axes=(arr.axes[d],))
        r = tv_of(self.interp.call_value(f, [fibre], {}, node, env))
        if r is None:
            return self.unk("apply_along_axis result", node)
        axes = arr.axes[:d] + r.axes + arr.axes[d + 1:]
        return r.but(kind="ndarray", axes=axes, p=r.p and arr.p)

    # =========================================================================== solvers
    def solve_qp(self, args, kwargs, node):
        names = ["P", "q", "G", "h", "A", "b", "lb", "ub"]
        vals = dict(zip(names, args))
        vals.update({k: v for k, v in kwargs.items() if k in names})
        tvs = {k: tv_of(v) for k, v in vals.items() if v is not None and v != NONE}
        if "P" not in tvs or any(t is None for t in tvs.values()):
            return self.unk("solve_qp arguments", node)
        P = tvs["P"]
        tag = P.axes[0] if P.axes else "K"
        fl = dict(p=all(t.p for t in tvs.values()), q=all(t.q for t in tvs.values()), s=all(t.s for t in tvs.values()), z=all(t.z for t in tvs.values()))
        for k, t in tvs.items():
            if any(a not in (tag, "1") for a in t.axes):
                if tag == "R":
                    fl["p"] = False
                    self.clear("p", f"solve_qp argument {k} is not indexed by the rows consistently", node)
        qd = tvs.get("q").deg if "q" in tvs else Z
        if qd == Z and "h" in tvs and "G" in tvs:
            deg = deg_sub(tvs["h"].deg, tvs["G"].deg)
        elif qd == Z and "lb" in tvs and "G" not in tvs and "ub" not in tvs:
            deg = tvs["lb"].deg  # v >= lb is -I v <= -lb
        elif all(t.deg in (F0, Z) for t in tvs.values()):
            deg = F0
        else:
            deg = None
        sv = kwargs.get("solver")
        self.ev("solve_qp", node, degs={k: str(t.deg) for k, t in tvs.items()}, solver=sv.v if isinstance(sv, Const) else repr(sv),
                origins={k: sorted(t.origin) for k, t in tvs.items()}, polys={k: t.poly for k, t in tvs.items()},
                axes={k: list(t.axes) for k, t in tvs.items()})
        self.ev("assumption", node, what="solve_qp returns the unique optimum (row-permutation equivariant)")
        org = frozenset().union(*[t.origin for t in tvs.values()]) | {"solve_qp"}
        return TV(kind="ndarray", axes=(tag,), deg=deg, dtype="F64", origin=org, note="optional",
                  gen=frozenset().union(*[t.gen for t in tvs.values()]), rng=any(t.rng for t in tvs.values()), **fl)

    def call_cvx(self, fn, args, kwargs, node, env):
        if fn == "Variable" or fn == "Parameter":
            shape = kwargs.get("shape", args[0] if args else ListV(items=(), kind="tuple"))
            axes, flat = self.axes_from_sizes([shape], node)
            v = tv_of(kwargs.get("value")) if "value" in kwargs else None
            t = TV(kind="cvx", axes=axes, deg=F0, dtype="F64")
            if v is not None:
                t = t.but(p=v.p, q=v.q, s=v.s, z=v.z, deg=v.deg)
            return t
        if fn in ("norm2", "pnorm") and args and not kwargs:
            fn, args = "norm", ([args[0], Const(2)] if fn == "norm2" else list(args))  # cp.norm2(x) is cp.norm(x, 2)
        if fn in ("norm", "sum", "log", "Minimize", "Maximize", "sqrt", "square", "sum_squares", "quad_form", "geo_mean", "exp"):
            a0 = tv_of(args[0]) if args else None
            if a0 is None:
                return self.unk(f"cvxpy.{fn}", node)
            if fn in ("Minimize", "Maximize"):
                return a0.but(kind="cvx", note="objective")
            if fn in ("norm", "sum", "sum_squares", "geo_mean"):
                o = self.const_int(args[1]) if len(args) > 1 else 2
                r = self.reduce(a0.but(kind="tensor"), "norm" if fn != "sum" else "sum", None, False, node, ord_=o)
                return r.but(kind="cvx") if isinstance(r, TV) else r
            return a0.but(kind="cvx")
        if fn == "Problem":
            obj = kwargs.get("objective", args[0] if args else None)
            cons = kwargs.get("constraints", args[1] if len(args) > 1 else ListV(items=()))
            parts = [tv_of(obj)]
            if isinstance(cons, ListV):
                parts += [tv_of(c) for c in (cons.items if cons.items is not None else [cons.elem])]
            parts = [p for p in parts if p is not None]
            self.cvx_flags.extend(parts)
            return ExtV("cvxpy.problem")
        if fn == "problem.solve":
            self.interp.may_raise(["SolverError"], node, "cvxpy solve")
            return TV(kind="pyfloat")
        if fn in ("CLARABEL", "ECOS", "SCS", "OSQP"):
            return Const(fn)
        return self.unk(f"cvxpy.{fn}", node)

    def cvx_solution_flags(self, node):
        parts = self.cvx_flags
        self.ev("assumption", node, what="cvxpy problem has a unique optimum (row-permutation equivariant)")
        if not parts:
            return dict(p=True, q=True, s=True, z=True, deg=F0)
        deg = F0 if all(t.deg in (F0, Z) for t in parts) else None
        return dict(p=all(t.p for t in parts), q=all(t.q for t in parts), s=all(t.s for t in parts), z=all(t.z for t in parts), deg=deg,
                    origin=frozenset().union(*[t.origin for t in parts]))

    def call_method(self, recv, name, args, kwargs, node, env):
        if isinstance(recv, ExtV) and recv.name == "cvxpy.problem" and name == "solve":
            self.interp.may_raise(["SolverError", "Exception"], node, "cvxpy solve")
            return TV(kind="pyfloat")
        return super().call_method(recv, name, args, kwargs, node, env)

    # =========================================================================== autograd / vmap
    def autograd(self, fn, args, kwargs, node, env):
        self.ev("autograd", node, fn=fn, kwargs={k: repr(v) for k, v in kwargs.items()})
        return self.unk("torch.autograd." + fn, node)

    def call_vmap(self, f, args, kwargs, node, env):
        return self.unk("vmap call", node)
