"""Pipeline domain: operator semantics for interpreting torchjd.autojac end to end (DESIGN.md 3.7).

User tensors are opaque (axes ``('?',)`` or ``('R', '?')`` when the leading row dimension matters); what is tracked is
the structure the properties talk about: key collections (atoms, order tokens), layouts of packed axes, autograd calls
with their arguments, ``.grad`` writes, aggregator calls, and the order in which all of these happen."""

from __future__ import annotations

import ast
from dataclasses import replace
from fractions import Fraction

from .ops import F0, tv_of
from .poly import Poly
from .report import norm_text
from .torchlib import FullOps
from .values import (
    FALSE, NONE, TRUE, Z, AVal, BoundV, ClassV, Const, DictV, Env, ExtMethodV, ExtV, FuncV, ListV, MetaV, ObjV, PartialV,
    SetV, TV, Unk, VmapV, join,
)

Q = "?"


def key_tv(atom: str, rows: bool = False) -> TV:
    # dtype tag "dt:<collection>": the dtype of the tensors of that collection (outputs and parameters may differ)
    return TV(kind="tensor", axes=("R", Q) if rows else (Q,), origin=frozenset([atom]), note="key", alias=True, deg=None, dtype="dt:" + atom)


def opaque(origin=frozenset(), note="", axes=(Q,), dtype="M", **kw) -> TV:
    return TV(kind="tensor", axes=axes, origin=frozenset(origin), note=note, deg=None, dtype=dtype, **kw)


def dt_join(*ds) -> str:
    ds = [d for d in ds if d]
    return ds[0] if ds and all(d == ds[0] for d in ds) else ("Mixed:" + "|".join(sorted(set(ds))) if ds else "M")


def is_opaque(v) -> bool:
    return isinstance(v, TV) and not v.is_py and Q in v.axes


def keys_list(atom: str, mode="same", rows=False) -> ListV:
    return ListV(items=None, elem=key_tv(atom, rows), kind="list", order=((atom,), mode))


def _last_element(v):
    """The value a loop variable keeps after the loop: atoms naming the generic member `X[i]` now name the last one."""
    ren = lambda a: a[:-3] + "[last]" if isinstance(a, str) and a.endswith("[i]") else a
    if isinstance(v, TV) and any(isinstance(a, str) and a.endswith("[i]") for a in v.origin):
        return v.but(origin=frozenset(ren(a) for a in v.origin), dtype=v.dtype)
    if isinstance(v, ListV) and v.items is None and v.it is None:
        o = v.order
        if o is not None and any(isinstance(a, str) and a.endswith("[i]") for a in o[0]):
            o = (tuple(ren(a) for a in o[0]),) + tuple(o[1:])
        el = _last_element(v.elem) if v.elem is not None else None
        if o is not v.order or el is not v.elem:
            return replace(v, order=o, elem=el, head=None, tail=(), tail_elem=None)
    return v


def _partial_buffer(sp) -> bool:
    """Row bookkeeping of a buffer some rows of which were never written (instance runs): nothing can be said about its rows."""
    return isinstance(sp, tuple) and bool(sp) and sp[0] == "buf"


def order_src(order):
    return tuple(order[0]) if order is not None else ()


class PipeOps(FullOps):
    def __init__(self):
        super().__init__()
        self.strict_atoms = False  # scenario mode: atoms denote non-empty, pairwise disjoint key sets
        self.inst = None  # instance runs: {"m": number of rows of the stack of cotangents} (sizes concrete, tensors abstract)
        self.loop_orders: list = []
        self.loop_ids: list = []
        self._lid = 0
        self.seq = 0

    # ------------------------------------------------------------------ bookkeeping
    def pev(self, kind, node, **data):
        """Pipeline event, numbered in execution order."""
        self.seq += 1
        if kind in ("unpack", "pack", "range"):
            data["stack"] = [f.qualname for f in self.interp.call_stack]  # a helper's event belongs to the stage that called it
        self.ev(kind, node, seq=self.seq, loops=list(self.loop_ids), **data)

    def note_value_use(self, t, node):
        return None

    def loop_enter(self, lid, st, info, env):
        super().loop_enter(lid, st, info, env)
        self.loop_orders.append(info.get("order"))
        self._lid += 1
        self.loop_ids.append(self._lid)

    def induction(self, head, nxt, lid, info) -> bool:
        """Induction variables of a loop over a key collection: a python int that starts from a constant c and grows by a width W taken
        from the current element on every iteration holds, at the head of the iteration for element e, c + (sum of the widths of the
        elements before e) — the same prefix sum `accumulate` produces, whatever the update is spelt like (`x += w`, `end = begin + w;
        ...; begin = end`). Returns True when a variable was rewritten (the body must be interpreted again with the closed form)."""
        order = info.get("order")
        if order is None or self.strict_atoms:
            return False
        if not hasattr(self, "psums"):
            self.psums = {}
        reg = self.__dict__.setdefault("_induction", {}).setdefault(lid, {})
        changed = False
        for var, hv in list(head.vars.items()):
            nv = nxt.vars.get(var)
            if isinstance(hv, Const) and isinstance(hv.v, int) and not isinstance(hv.v, bool):
                hv = tv_of(hv)
            if isinstance(nv, Const) and isinstance(nv.v, int) and not isinstance(nv.v, bool):
                nv = tv_of(nv)
            if not (isinstance(hv, TV) and isinstance(nv, TV) and hv.kind == "pyint" and nv.kind == "pyint"):
                continue
            if var in reg:
                sym, W = reg[var]
                if nv.poly is not None and hv.poly is not None and nv.poly == hv.poly + W:
                    nxt.vars[var] = hv  # the invariant is preserved by the body
                else:
                    del reg[var]
                    head.vars[var] = hv.but(poly=None, note="")
                    changed = True
                continue
            if hv.poly is None or nv.poly is None or hv.poly.const_value() is None:
                continue
            W = nv.poly - hv.poly
            if W.const_value() is not None or any(str(x).startswith(("psum[", "i#")) for x in W.symbols()):
                continue
            src_ = info.get("src")
            idx_ = src_.elem.poly if isinstance(src_, ListV) and isinstance(src_.elem, TV) and src_.elem.note == "range-index" and src_.elem.poly is not None else None
            ln_ = tv_of(src_.length) if isinstance(src_, ListV) and src_.length is not None else None
            if order[0] and order[0][0] == "range" and idx_ is not None and ln_ is not None and ln_.poly is not None:
                # a running offset in a loop over range(n) that grows by the same W every time: c + i·W at the head of iteration i, c + n·W after the loop
                new = TV(kind="pyint", poly=hv.poly + idx_ * W, origin=hv.origin | nv.origin | frozenset(["loop-index"]))
                reg[var] = ("arith:" + repr(hv.poly + ln_.poly * W), W)
                self.__dict__.setdefault("_arith_total", {})[(lid, var)] = hv.poly + ln_.poly * W
                head.vars[var] = new
                nxt.vars[var] = new
                changed = True
                continue
            key = f"{W!r}|{order!r}"
            sym = f"psum[{key}]"
            self.psums[sym] = W
            reg[var] = (sym, W)
            new = TV(kind="pyint", note="prefix-sum-cur", poly=Poly.sym(sym) + hv.poly, origin=hv.origin | nv.origin)
            head.vars[var] = new
            nxt.vars[var] = new
            changed = True
        return changed

    def loop_exit(self, env, lid, info, st):
        # an induction variable leaves the loop holding the total
        for var, (sym, W) in self.__dict__.get("_induction", {}).pop(lid, {}).items():
            e_ = env
            while e_ is not None:
                if var in e_.vars and isinstance(e_.vars[var], TV):
                    if sym.startswith("arith:"):
                        e_.vars[var] = e_.vars[var].but(poly=self.__dict__.get("_arith_total", {}).pop((lid, var), None), note="")
                    else:
                        e_.vars[var] = e_.vars[var].but(poly=Poly.sym("total" + sym[4:]), note="prefix-sum-total")
                    break
                e_ = e_.parent
        # the loop variable outlives the loop holding the LAST element only: what is done with it afterwards concerns one
        # member of the collection, not the collection
        if isinstance(st, ast.For):
            for nm in {n.id for n in ast.walk(st.target) if isinstance(n, ast.Name)}:
                e_ = env
                while e_ is not None:
                    if nm in e_.vars:
                        e_.vars[nm] = _last_element(e_.vars[nm]) if not __import__("os").environ.get("NOLAST") else e_.vars[nm]
                        break
                    e_ = e_.parent
        self._loop_exit_rest(env, lid, info, st)

    def _loop_exit_rest(self, env, lid, info, st):
        if self.loop_orders:
            self.loop_orders.pop()
            self.loop_ids.pop()
        return super().loop_exit(env, lid, info, st)

    def comp_enter(self, info):
        self.loop_orders.append(info.get("order"))
        self._lid += 1
        self.loop_ids.append(self._lid)

    def comp_exit(self, info):
        if self.loop_orders:
            self.loop_orders.pop()
            self.loop_ids.pop()

    def current_loop_order(self, env):
        for o in reversed(self.loop_orders):
            if o is not None:
                return o
        return None

    def comp_abstract(self, r, kind, info, lid, filtered, n, env):
        return super().comp_abstract(r, kind, info, lid, filtered, n, env)

    # ------------------------------------------------------------------ atoms / sets
    def atoms_of(self, v) -> frozenset:
        if isinstance(v, SetV):
            return v.atoms
        if isinstance(v, ListV):
            if v.items is None and isinstance(v.elem, TV) and v.elem.note == "key":
                return v.elem.origin
            if v.order is not None:
                return frozenset(a for a in order_src(v.order) if isinstance(a, str) and not a.startswith("range"))
            if v.items is not None:
                out = frozenset()
                for x in v.items:
                    if isinstance(x, TV) and x.note == "key":
                        out |= x.origin
                return out
        if isinstance(v, DictV):
            k = self.dict_keys(v)
            return self.atoms_of(k) if k is not None else frozenset()
        if isinstance(v, ObjV) and v.payload is not None:
            return self.atoms_of(v.payload)
        return frozenset()

    def to_set(self, v, node):
        if isinstance(v, ListV) and v.it is not None:
            v = self.consume(v, node)
        if isinstance(v, ListV) and v.items is not None and all(isinstance(x, TV) and x.note == "key" for x in v.items) and v.items:
            return SetV(items=tuple(v.items), atoms=self.atoms_of(v))
        if isinstance(v, ListV) and v.items is None:
            return SetV(items=None, elem=v.elem, atoms=self.atoms_of(v))
        if isinstance(v, DictV) and v.items is None:
            k = v.keys
            return self.to_set(k, node) if k is not None else SetV(items=None, elem=None)
        return super().to_set(v, node)

    @staticmethod
    def set_is_empty(s: SetV) -> bool:
        return (s.items is not None and len(s.items) == 0) or (s.items is None and s.elem is None and not s.atoms)

    def sets_equal(self, a: SetV, b: SetV):
        ea, eb = self.set_is_empty(a), self.set_is_empty(b)
        if ea and eb:
            return True
        aa = a.atoms or frozenset().union(*[x.origin for x in (a.items or ()) if isinstance(x, TV) and x.note == "key"]) if (a.atoms or a.items) else frozenset()
        bb = b.atoms or frozenset().union(*[x.origin for x in (b.items or ()) if isinstance(x, TV) and x.note == "key"]) if (b.atoms or b.items) else frozenset()
        if aa and bb and aa == bb:
            return True
        if self.strict_atoms and (aa or ea) and (bb or eb):
            return aa == bb
        # an empty set against a collection that this path has already decided to be empty
        if not self.strict_atoms and (ea != eb):
            other = bb if ea else aa
            dec = getattr(self.interp.trace, "decided", {})
            if other and all(dec.get("nonempty?" + x) is False for x in other):
                return True
            if other and dec.get("nonempty?" + "+".join(sorted(other))) is False:
                return True
        return None

    def set_binop(self, a, op, b, node):
        if isinstance(a, SetV) and isinstance(b, SetV) and isinstance(op, ast.BitOr):
            if self.set_is_empty(a):
                return b
            if self.set_is_empty(b):
                return a
            return SetV(items=None, elem=join(self.set_elem(a), self.set_elem(b)) if self.set_elem(a) is not None and self.set_elem(b) is not None else (self.set_elem(a) or self.set_elem(b)),
                        atoms=self.atoms_of(a) | self.atoms_of(b))
        if isinstance(a, SetV) and isinstance(b, SetV) and isinstance(op, (ast.Sub, ast.BitAnd)) and self.atoms_of(a) and self.atoms_of(b) and \
                (self.strict_atoms or (isinstance(op, ast.Sub) and self.atoms_of(a) <= self.atoms_of(b))):
            aa, bb = self.atoms_of(a), self.atoms_of(b)
            res = (aa - bb) if isinstance(op, ast.Sub) else (aa & bb)
            self.pev("set_op", node, op=type(op).__name__, left=sorted(aa), right=sorted(bb))
            if not res:
                return SetV(items=())
            return SetV(items=None, elem=self.set_elem(a), atoms=frozenset(res))
        if isinstance(a, SetV) and isinstance(b, SetV) and isinstance(op, (ast.Sub, ast.BitAnd)):
            self.pev("set_op", node, op=type(op).__name__, left=sorted(self.atoms_of(a)), right=sorted(self.atoms_of(b)))
            return SetV(items=None, elem=self.set_elem(a), atoms=frozenset([f"({'-' if isinstance(op, ast.Sub) else '&'}:{'+'.join(sorted(self.atoms_of(a)))}:{'+'.join(sorted(self.atoms_of(b)))})"]))
        return super().set_binop(a, op, b, node)

    def set_method(self, s, name, args, kwargs, node, env):
        if name == "difference" and args:
            return self.set_binop(s, ast.Sub(), self.to_set(args[0], node), node)
        if self.strict_atoms and name in ("issubset", "issuperset", "isdisjoint"):
            o = self.to_set(self.consume(args[0], node, full=False), node)
            if isinstance(o, SetV):
                a, b = self.atoms_of(s), self.atoms_of(o)
                return Const({"issubset": a <= b, "issuperset": a >= b, "isdisjoint": not (a & b)}[name])
        if name == "intersection":
            o = self.to_set(args[0], node) if args else SetV(items=())
            return self.set_binop(s, ast.BitAnd(), o, node)
        if name == "symmetric_difference" and args:
            o = self.to_set(args[0], node)
            if isinstance(o, SetV) and o.items is not None and not o.items:
                return s  # s ^ {} = s
            if isinstance(o, SetV) and s.items is not None and not s.items:
                return o
            if isinstance(o, SetV):
                eq = self.sets_equal(s, o)
                self.ev("set_compare", node, left=repr(s)[:120], right=repr(o)[:120], left_atoms=sorted(self.atoms_of(s)), right_atoms=sorted(self.atoms_of(o)), equal=eq)
                if eq is True:
                    return SetV(items=())
                a, b = self.atoms_of(s), self.atoms_of(o)
                if self.strict_atoms and (a or self.set_is_empty(s)) and (b or self.set_is_empty(o)):
                    d = (a - b) | (b - a)
                    return SetV(items=()) if not d else SetV(items=None, elem=self.set_elem(s) or self.set_elem(o), atoms=frozenset(d))
                return SetV(items=None, elem=self.set_elem(s) or self.set_elem(o), atoms=frozenset([f"(^:{'+'.join(sorted(a))}:{'+'.join(sorted(b))})"]))
        if name == "isdisjoint" and args:
            raw = args[0]
            o = self.to_set(self.consume(raw, node, full=False), node)  # stops at the first common element
            inter = self.set_binop(s, ast.BitAnd(), o, node) if isinstance(o, SetV) else None
            if isinstance(inter, SetV):
                if inter.items is not None and len(inter.items) == 0:
                    self.exhausted_if(raw, None, None)  # disjoint: the iterator was read to its end
                    return Const(True)
                if self.atoms_of(inter):
                    key = "nonempty?" + "+".join(sorted(self.atoms_of(inter)))
                    self.exhausted_if(raw, key, False)  # ... on the paths where the answer is "disjoint"
                    return TV(kind="pybool", dtype="Bool", note=key + "|neg")
        return super().set_method(s, name, args, kwargs, node, env)

    def comp_abstract(self, r, kind, info, lid, filtered, n, env):
        res = super().comp_abstract(r, kind, info, lid, filtered, n, env)
        return res

    def e_setcomp_fix(self, v):
        return v

    def length(self, v, node):
        if isinstance(v, ListV) and v.kind == "counter":
            return self.length(self.to_set(replace(v, kind="list"), node), node)  # len(Counter): the number of distinct elements
        if isinstance(v, ListV) and v.it is not None:
            from .interp import AbsRaise

            self.ev("raise_site", node, exc="TypeError", what="len() of a one-shot iterator")
            raise AbsRaise("TypeError", node, self.interp.where(node)[1])
        if isinstance(v, SetV) and v.items is not None and any(isinstance(x, (SetV, ListV, DictV)) for x in v.items):
            # a set of collections (`{frozenset(t.required_keys) for t in ts}`): how many of them are equal is a question about their contents
            reps = []
            for x in v.items:
                if not isinstance(x, SetV):
                    return self.unk("len() of a set of collections", node)
                for r in reps:
                    eq = self.sets_equal(x, r)
                    if eq is None:
                        return self.unk("len() of a set of collections", node)
                    if eq:
                        break
                else:
                    reps.append(x)
            return Const(len(reps))
        if self.strict_atoms:
            if isinstance(v, ListV) and v.items is None and v.order is not None:
                p = Poly()
                for a in order_src(v.order):
                    p = p + Poly.sym(f"|{a}|")
                return TV(kind="pyint", poly=p, note="len")
            if isinstance(v, ListV) and v.items is not None and not v.items:
                return Const(0)
            if isinstance(v, SetV):
                p = Poly()
                for a in sorted(self.atoms_of(v)):
                    p = p + Poly.sym(f"|{a}|")
                return TV(kind="pyint", poly=p, note="len")
        if isinstance(v, ListV) and v.items is None and isinstance(v.length, TV) and v.length.poly is not None and not self.strict_atoms \
                and any(str(a).startswith("range") for a in order_src(v.order)):
            return v.length  # a list built element by element from a range of known length
        if isinstance(v, ListV) and v.items is None:
            src = "+".join(str(a) for a in order_src(v.order)) or "?"
            uniq = v.order is not None and ("unordered" in v.order[1] or "unique" in v.order[1])
            if v.order is not None and "filtered" in v.order[1]:
                # a selection by a condition on the elements: its size is its own unknown (it may be empty although the collection is not)
                return TV(kind="pyint", poly=Poly.sym(f"len~[{src}]"), origin=frozenset(self.atoms_of(v)), note="len")
            return TV(kind="pyint", poly=Poly.sym(f"len[{src}]" if uniq else f"len*[{src}]"), origin=frozenset(self.atoms_of(v)), note="len")
        if isinstance(v, (DictV, SetV)) or (isinstance(v, ObjV) and v.payload is not None):
            d = v.payload if isinstance(v, ObjV) else v
            if isinstance(d, DictV) and d.items is not None:
                return Const(len(d.items))
            if isinstance(d, SetV) and d.items is not None:
                return Const(len(d.items))
            if isinstance(d, SetV) and self.set_is_empty(d):
                return Const(0)
            at = sorted(self.atoms_of(d))
            return TV(kind="pyint", poly=Poly.sym(f"len[{'+'.join(at) or '?'}]"), origin=frozenset(at), note="len")
        t = tv_of(v)
        if t is not None and is_opaque(t) and t.note == "key" and t.axes == (Q,):
            # len() of a tensor the caller passed (any shape, 0-d included): TypeError for a 0-d tensor
            self.pev("len_of_key", node, origin=sorted(t.origin))
        if t is not None and is_opaque(t):
            sp = self.rows_of(t)
            if sp is not None:
                return TV(kind="pyint", poly=Poly.const(self.span_len(sp)), note="len", origin=t.origin)
            if t.axes[0] == "R":
                return self.size_tv(t, 0)
            return TV(kind="pyint", note="len", origin=t.origin)
        return super().length(v, node)

    # ------------------------------------------------------------------ identity / truth
    def identity(self, a, b):
        for x, y in ((a, b), (b, a)):
            if isinstance(y, Const) and y.v is None and isinstance(x, TV) and x.note in ("optional", "grad-field", "maybe-none"):
                return None
        return super().identity(a, b)

    def decide_test(self, test_expr, val, env):
        if self.strict_atoms and isinstance(val, SetV) and val.items is None and val.atoms:
            return True  # scenario mode: atoms denote non-empty sets
        m = env.module.name if env is not None else ""
        if m.endswith("tensor_dict") and env.fn is not None and self._is_shape_guard(env.fn):
            self.ev("assumed_consistent", test_expr)
            return False
        return None

    _SHAPE_GUARDS: dict = {}

    def _is_shape_guard(self, fi) -> bool:
        """A shape-consistency check of the typed dictionaries: a function of the tensor-dictionary module (not the key check,
        which compares key SETS) every raise of which is a ValueError about the shapes of the stored values."""
        k = id(fi.node)
        if k not in self._SHAPE_GUARDS:
            raises = [x for x in ast.walk(fi.node) if isinstance(x, ast.Raise)]
            reads_shape = any(isinstance(x, ast.Attribute) and x.attr in ("shape", "ndim") for x in ast.walk(fi.node))
            self._SHAPE_GUARDS[k] = bool(raises) and reads_shape and all("ValueError" in ast.unparse(x) for x in raises)
        return self._SHAPE_GUARDS[k]

    def contains(self, container, item, negate, node):
        # membership of a key in a key collection: the element-wise spelling of an intersection test
        c = container.payload if isinstance(container, ObjV) and container.payload is not None else container
        if isinstance(c, DictV):
            c = self.dict_keys(c)
        if isinstance(c, ListV) and c.it is not None:
            c = self.consume(c, node, full=False)  # `x in iterator` advances it up to the first match
        it = tv_of(item)
        if isinstance(c, (SetV, ListV)) and c.items is None and isinstance(it, TV) and it.note == "key":
            ca, ia = sorted(self.atoms_of(c)), sorted(it.origin)
            if ca and ia and not (set(ca) & set(ia)):
                self.pev("set_op", node, op="In", left=ia, right=ca)
                inter = f"(&:{'+'.join(ia)}:{'+'.join(ca)})"
                return TV(kind="pybool", dtype="Bool", note="nonempty?" + inter + ("|neg" if negate else ""))
        return TV(kind="pybool", dtype="Bool", note="membership")

    def compare(self, a, op, b, node, env):
        if self.strict_atoms:
            ta, tb = tv_of(a), tv_of(b)
            if ta is not None and tb is not None and ta.poly is not None and tb.poly is not None:
                d = ta.poly - tb.poly
                if d.terms and all(all(s.startswith("|") for s, _ in m) and m for m in d.terms) and len({c > 0 for c in d.terms.values()}) == 1:
                    pos = next(iter(d.terms.values())) > 0  # sizes of non-empty sets are positive
                    res = {ast.Eq: False, ast.NotEq: True, ast.Lt: not pos, ast.LtE: not pos, ast.Gt: pos, ast.GtE: pos}.get(type(op))
                    if res is not None:
                        return Const(res)
        return super().compare(a, op, b, node, env)

    # ------------------------------------------------------------------ broadcasting with opaque shapes
    def broadcast(self, a, b, node):
        if Q in a.axes or Q in b.axes:
            axes = a.axes if len(a.axes) >= len(b.axes) else b.axes
            return tuple(axes), False, False, False
        return super().broadcast(a, b, node)

    def matmul(self, a, b, node):
        if Q in a.axes or Q in b.axes:
            return opaque(a.origin | b.origin, dtype=dt_join(a.dtype, b.dtype))
        return super().matmul(a, b, node)

    # ------------------------------------------------------------------ instance runs: rows carried by a value
    def rows_of(self, t):
        """Row intervals of the full stack carried by `t`, in order (instance runs only); None when not known."""
        if self.inst is None or not isinstance(t, TV):
            return None
        if _partial_buffer(t.rowspan):
            # a buffer some rows of which were not written is being read (sliced, reshaped, handed on): those rows are uninitialised memory
            self.interp.event("unwritten_rows", None, missing=[i for i, c in enumerate(t.rowspan[1]) if c is None])
            return None
        if t.rowspan == "?":
            return None
        if t.rowspan is not None:
            return t.rowspan if t.axes and t.axes[0] in ("R", "K") else None
        if t.axes and t.axes[0] == "R":
            return ((0, self.inst["m"]),)  # a stack of cotangents nobody has sliced yet
        return None

    @staticmethod
    def span_len(sp):
        return sum(hi - lo for lo, hi in sp)

    @staticmethod
    def span_norm(rows):
        out = []
        for r in rows:
            if out and out[-1][1] == r:
                out[-1] = (out[-1][0], r + 1)
            else:
                out.append((r, r + 1))
        return tuple(out)

    @staticmethod
    def span_rows(sp):
        return [r for lo, hi in sp for r in range(lo, hi)]

    def common_span(self, vals):
        sp = None
        for v in vals:
            t = tv_of(v)
            if t is None or t.rowspan is None:
                continue
            if t.rowspan == "?" or _partial_buffer(t.rowspan) or (sp is not None and sp != t.rowspan):
                return "?"
            sp = t.rowspan
        return sp

    # ------------------------------------------------------------------ attributes
    def value_attr(self, base, attr, node, env):
        if is_opaque(base):
            t = base
            if attr == "shape":
                sp = self.rows_of(t)
                return ListV(items=None, elem=TV(kind="pyint", note="dim"), kind="tuple", order=(("shape:" + "+".join(sorted(t.origin)),), "same"),
                             length=None, head=TV(kind="pyint", poly=Poly.const(self.span_len(sp)), note="dim", origin=frozenset(o + "#meta" for o in t.origin)) if sp is not None else None)
            if attr == "grad":
                return opaque(t.origin, note="grad-field", dtype=t.dtype)
            if attr in ("grad_fn",):
                return TV(kind="tensor", axes=(), note="maybe-none", origin=t.origin)
            if attr in ("requires_grad", "is_leaf", "retains_grad"):
                return TV(kind="pybool", dtype="Bool", note=attr, origin=t.origin)
            if attr in ("ndim",):
                return TV(kind="pyint", note="ndim", origin=t.origin)
            if attr in ("dtype", "device"):
                return MetaV(attr, t.dtype if attr == "dtype" else "")
            if attr in ("T", "mT"):
                self.pev("axis_reorder", node, what=attr)
                return t
            return ExtMethodV(t, attr)
        if isinstance(base, ListV) and base.kind == "tuple" and attr == "numel":
            return ExtMethodV(base, attr)
        return super().value_attr(base, attr, node, env)

    def subscript(self, base, idx, node, env):
        if is_opaque(base):
            return self.opaque_index(base, idx, node, env)
        if isinstance(base, ListV) and base.order is not None and base.order[0] and str(base.order[0][0]).startswith("shape:"):
            # element / slice of an opaque shape
            if idx[0] == "index":
                i = self.const_int(idx[1])
                if i == 0 and base.head is not None and not base.tail:
                    return base.head  # instance run: the number of rows is a number
                return TV(kind="pyint", poly=Poly.sym(f"dim{i}[{base.order[0][0][6:]}]"), note="dim")
            return replace(base, head=None)
        return super().subscript(base, idx, node, env)

    def inst_minmax(self, fn, args, node):
        """Instance runs: min / max of a concrete size c and the total number of elements X of a collection of tensors. For `backward` the
        elements of `tensors` ARE the rows (X = m). Any other total is a size the row count says nothing about: the run forks over the
        outcomes (X >= c, or X = 1, ..., c - 1 for min; X <= c, X = c + 1, X = c + 5 for max), one path each."""
        cs = [self.const_int(a) for a in args]
        if (cs[0] is None) == (cs[1] is None):
            return None
        c = cs[0] if cs[0] is not None else cs[1]
        x = tv_of(args[1] if cs[0] is not None else args[0])
        if x is None or x.note != "numel-total":
            return None
        pick = min if fn == "min" else max
        if self.inst.get("entry") == "backward" and x.origin == frozenset(["tensors"]):
            return Const(pick(c, self.inst["m"]))
        I = self.interp
        if I.join_depth != 0 or c < 1:
            return None
        outcomes = [c] + (list(range(1, c)) if fn == "min" else [c + 1, c + 5])
        ch = I.oracle.decide(f"{I.where(node)[0]}: {norm_text(node)}", len(outcomes))
        what = "+".join(sorted(x.origin))
        I.trace.decisions.append(f"[numel({what}) {'>=' if fn == 'min' else '<='} {c}]" if ch == 0 else f"[numel({what}) = {outcomes[ch]}]")
        return Const(outcomes[ch])

    def unpack_list(self, v, n, node):
        if isinstance(v, ListV) and v.order is not None and v.order[0] and str(v.order[0][0]).startswith("shape:"):
            return [self.subscript(v, ("index", Const(i)), node, None) for i in range(n)]  # `rows, cols = t.shape` is t.shape[0], t.shape[1]
        return None

    def psum_note(self, v):
        """Names a bound that is, in closed form, a prefix sum of an accumulated list: `cur` or `cur + width` = `next`."""
        if not (isinstance(v, TV) and v.poly is not None):
            return v
        ps = [x for x in v.poly.symbols() if x.startswith("psum[")]
        if len(ps) != 1 or ps[0] not in getattr(self, "psums", {}):
            return v
        if v.poly == Poly.sym(ps[0]):
            return v.but(note="prefix-sum-cur")
        if v.poly == Poly.sym(ps[0]) + self.psums[ps[0]]:
            return v.but(note="prefix-sum-next")
        return v.but(note="")

    def opaque_index(self, t: TV, idx, node, env):
        parts = list(idx[1]) if idx[0] == "tuple" else [idx]
        out = t
        for pos, part in enumerate(parts):
            if part[0] == "slice":
                _, lo, hi, step = part
                lo, hi, step = (None if isinstance(x, Const) and x.v is None else x for x in (lo, hi, step))
                if lo is None and hi is None and step is None:
                    continue
                lay = [l for l in t.layout if l[0] == pos]
                lo, hi = self.psum_note(lo), self.psum_note(hi)
                self.pev("unpack", node, axis=pos, layout=repr(lay[0][1]) if lay else None, layout_how=lay[0][2] if lay else None,
                         loop_order=repr(self.current_loop_order(env)), lo=repr(lo), hi=repr(hi), lo_poly=self.poly_of(lo), hi_poly=self.poly_of(hi),
                         step=repr(step), in_loop=bool(self.loop_orders), tensor_origin=sorted(t.origin),
                         lo_origin=sorted(lo.origin) if isinstance(lo, TV) else None, hi_origin=sorted(hi.origin) if isinstance(hi, TV) else None,
                         lo_note=lo.note if isinstance(lo, TV) else None, hi_note=hi.note if isinstance(hi, TV) else None)
                out = out.but(layout=tuple(l for l in out.layout if l[0] != pos), alias=True)
                if pos == 0 and lay and len(parts) == 1 and self.poly_of(lo) is not None and self.poly_of(hi) is not None:
                    # a slice [lo:hi) of a packed vector: remembered, so that `diag` of it written into rows [lo:hi) of a zero buffer is recognised as a block of columns of diag(vector)
                    self._slices = getattr(self, "_slices", {})
                    self._slices[id(out)] = (out, self.poly_of(lo), self.poly_of(hi), lay[0], t.origin)
                if pos == 0 and self.inst is not None:
                    sp = self.rows_of(t)
                    cl = None if lo is None else self.const_int(lo)
                    ch = None if hi is None else self.const_int(hi)
                    cs = None if step is None else self.const_int(step)
                    if sp is None or (lo is not None and cl is None) or (hi is not None and ch is None) or (step is not None and cs is None):
                        out = out.but(rowspan="?")
                    else:
                        out = out.but(rowspan=self.span_norm(self.span_rows(sp)[slice(cl, ch, cs)]))
            else:
                self.pev("index", node, axis=pos, idx=repr(part[1]), tensor_origin=sorted(t.origin))
                iv = part[1]
                full_rest = all(q[0] == "slice" and q[1] is None and q[2] is None and q[3] is None for q in parts[pos + 1:])
                if pos == 0 and full_rest and isinstance(iv, Const) and iv.v is None:
                    # t[None] == t.unsqueeze(0)
                    out = out.but(layout=tuple((l[0] + 1, l[1], l[2]) for l in out.layout), axes=("K",) + tuple(out.axes))
                elif pos == 0 and full_rest and self.const_int(iv) is not None:
                    # t[c]: the first axis disappears, the layouts of the others move down
                    sp_ = self.rows_of(t)
                    c_ = self.const_int(iv)
                    rows_ = self.span_rows(sp_) if sp_ is not None else None
                    out = out.but(layout=tuple((l[0] - 1, l[1], l[2]) for l in out.layout if l[0] > 0), axes=out.axes[1:] if len(out.axes) > 1 else (Q,),
                                  rowspan=(self.span_norm([rows_[c_]]) if rows_ is not None and -len(rows_) <= c_ < len(rows_) else ("?" if self.inst is not None else None)))
                else:
                    out = out.but(layout=())
        return out

    # ------------------------------------------------------------------ stores
    def store_attr(self, obj, attr, v, st, env, aug):
        if isinstance(obj, TV) and attr == "grad":
            vt = tv_of(v)
            self.pev("grad_write", st, aug=aug, target=sorted(obj.origin), target_note=obj.note, value=repr(v), value_dtype=vt.dtype if vt is not None else None, target_dtype=obj.dtype,
                     fresh=bool(vt is not None and not vt.alias), value_origin=sorted(vt.origin) if vt is not None else None,
                     value_is_none=isinstance(v, Const) and v.v is None)
            return
        if isinstance(obj, TV) and not obj.is_py:
            self.pev("tensor_attr_write", st, attr=attr, target=sorted(obj.origin))
            return
        return super().store_attr(obj, attr, v, st, env, aug)

    def augassign(self, cur, op, rhs, st, env):
        if is_opaque(cur):
            t = tv_of(rhs)
            self.pev("inplace", st, alias=cur.alias, target=norm_text(st.target), target_note=cur.note, target_origin=sorted(cur.origin))
            return cur
        return super().augassign(cur, op, rhs, st, env)

    def tensor_store(self, tv, idx, v, st, aug):
        if is_opaque(tv):
            self.pev("inplace", st, alias=tv.alias, target="subscript", target_note=tv.note, target_origin=sorted(tv.origin))
            it = tv_of(idx[1]) if idx and idx[0] == "index" else None
            vt = tv_of(v)
            blk = getattr(self, "_slices", {}).get(id(vt)) if vt is not None else None
            if blk is not None and len(blk) == 6 and blk[0] is vt and not aug and tv.note in ("zeros", "new_zeros") and tv.axes and tv.axes[0] == "R" and idx and idx[0] == "slice":
                lo_, hi_ = (None if isinstance(x, Const) and x.v is None else x for x in idx[1:3])
                same = lo_ is not None and hi_ is not None and self.poly_of(self.psum_note(lo_)) == blk[1] and self.poly_of(self.psum_note(hi_)) == blk[2]
                # zeros((n, hi - lo)); buf[lo:hi] = diag(v[lo:hi]): the columns [lo:hi) of diag(v) — rows outside [lo:hi) stay zero
                self.pev("diag", st, layout=[repr((0,) + tuple(blk[3][1:]))] if same else [], block=True, rows_match=bool(same))
                if same:
                    return tv.but(layout=((0, blk[3][1], blk[3][2]),), origin=tv.origin | blk[4], alias=False, note="diag-block")
            if not aug and idx and idx[0] == "slice" and tv.note in ("new_empty", "empty", "zeros", "new_zeros", "rowbuf") and isinstance(vt, TV) and is_opaque(vt) \
                    and vt.axes and vt.axes[0] in ("R", "K") and len(vt.axes) >= 2:
                # buf = x.new_empty([m, n]); buf[lo:hi] = block of rows — the buffer is what vstack of the blocks, laid at their positions, would be:
                # its columns are laid out like the blocks' columns; which rows of the stack of cotangents end up where is followed in the instance runs
                self.pev("pack", st, fn="vstack", dim=0, order="None", elem=repr(vt), in_loop=bool(self.loop_orders), scatter=True)
                if tv.dtype != vt.dtype and tv.dtype not in ("Mixed",) and vt.dtype not in ("Mixed",):
                    self.ev("store_cast", st, buffer_dtype=tv.dtype, value_dtype=vt.dtype, buffer_origin=sorted(tv.origin), buffer_note=tv.note)
                cols = tuple(l for l in vt.layout if l[0] >= 1)
                keep_cols = tuple(l for l in tv.layout if l[0] >= 1)
                span = tv.rowspan
                if self.inst is not None:
                    m_ = self.inst["m"]
                    cells = list(span[1]) if isinstance(span, tuple) and span and span[0] == "buf" else [None] * m_
                    lo_c = 0 if (isinstance(idx[1], Const) and idx[1].v is None) or idx[1] is None else self.const_int(idx[1])
                    rows_v = self.rows_of(vt)
                    if lo_c is None or rows_v is None or tv.note != "rowbuf" and span is not None and not (isinstance(span, tuple) and span and span[0] == "buf"):
                        span = "?"
                    else:
                        rr = self.span_rows(rows_v)
                        hi_c = None if (isinstance(idx[2], Const) and idx[2].v is None) or idx[2] is None else self.const_int(idx[2])
                        if lo_c < 0 or lo_c + len(rr) > m_ or (hi_c is not None and hi_c - lo_c != len(rr)):
                            span = "?"
                        else:
                            cells[lo_c:lo_c + len(rr)] = rr
                            span = ("buf", tuple(cells))
                            if all(c is not None for c in cells):
                                span = tuple((r, r + 1) for r in cells) if cells != sorted(set(cells)) else self.span_norm(cells)
                return tv.but(note="rowbuf", layout=((0, None, "vstack"),) + (cols if (not keep_cols or keep_cols == cols) else ()), origin=tv.origin | vt.origin, alias=False, rowspan=span)
            enum_ = next((l[1] for l in (it.layout if isinstance(it, TV) else ()) if l[0] == "enum"), None)
            if not aug and tv.note in ("zeros", "empty") and tv.axes and tv.axes[0] == "R" and enum_ is not None and isinstance(vt, TV):
                # buf = zeros((n,) + shape); for i, x in enumerate(xs): buf[i] = f(x)  —  row i of buf is f(xs[i]): torch.stack over xs, rows never written staying zero
                self.pev("pack", st, fn="stack", dim=0, order=repr(enum_), elem=repr(vt), in_loop=bool(self.loop_orders), scatter=True)
                lay = ((0, enum_, "stack"),) + tuple((l[0] + 1, l[1], l[2]) for l in vt.layout)
                return tv.but(layout=lay, origin=tv.origin | vt.origin, alias=False)
            return tv
        return super().tensor_store(tv, idx, v, st, aug)

    # ------------------------------------------------------------------ tensor methods / library on opaque tensors
    def tensor_method(self, t: TV, name, args, kwargs, node, env):
        if not is_opaque(t):
            return super().tensor_method(t, name, args, kwargs, node, env)
        if name == "clone":
            return t.but(alias=False, note="clone" if t.note not in ("optional",) else t.note)
        if name in ("to", "type", "float", "double", "half", "bfloat16"):
            # a dtype conversion of a pipeline tensor (gradients, Jacobians, the aggregated vector)
            cand = [a for a in list(args) + [kwargs.get("dtype")] if isinstance(a, MetaV) and a.what == "dtype"]
            tag = cand[0].tag if cand else ({"float": "Fixed:float32", "double": "Fixed:float64", "half": "Fixed:float16", "bfloat16": "Fixed:bfloat16"}.get(name))
            if tag is not None and tag != t.dtype:
                self.pev("dtype_cast", node, frm=t.dtype, to=tag, origin=sorted(t.origin))
                return t.but(dtype=tag)
            if name != "to" and tag is None:
                return super().tensor_method(t, name, args, kwargs, node, env)
            return t
        if name in ("detach", "contiguous", "cpu"):
            return t
        if name in ("reshape", "view"):
            shape = list(args[0].items) if len(args) == 1 and isinstance(args[0], ListV) and args[0].items is not None else list(args)
            desc = [self.shape_arg(a) for a in shape] if not (len(args) == 1 and isinstance(args[0], ListV) and args[0].items is None) else ["<shape>"]
            if len(args) == 1 and isinstance(args[0], ListV) and args[0].items is None:
                desc = [self.shape_arg(args[0])]
            n_numel = sum(1 for a in shape if isinstance(a, TV) and a.note in ("numel", "nelement") and self.const_int(a) is None)
            n_lit = sum(1 for a in shape if self.const_int(a) == -1)
            self.pev("reshape", node, how=name, shape=desc, layout=[repr(l) for l in t.layout], origin=sorted(t.origin), inferred_beside_numel=bool(n_numel and n_lit))
            if len(shape) == 2 and self.const_int(shape[0]) == -1 and self.const_int(shape[1]) is None and not (isinstance(shape[1], TV) and shape[1].note in ("numel", "nelement")) \
                    and len(t.axes) == 1 and t.layout:
                # a vector of blocks laid end to end, viewed as (-1, n): column c of the view holds the entries c, c + n, c + 2n, ... of the vector
                return t.but(layout=(), axes=(Q, Q), note="strided-columns:" + norm_text(node)[:80])
            keep = t.layout if desc and desc[0] in ("rows", "-1") and len(desc) <= 2 else ()
            axes = ("R", Q) if desc and desc[0] == "rows" else (Q,)
            if desc == ["-1"]:
                keep = ()
            return t.but(layout=keep, axes=axes if t.axes[0] == "R" and desc and desc[0] == "rows" else ((Q,) if desc == ["-1"] else t.axes))
        if name == "unbind" and t.note.startswith("strided-columns:") and self.const_int(kwargs.get("dim", args[0] if args else Const(0))) in (1, -1):
            self.pev("reshape", node, how="view+unbind", shape=["-1", "<n>"], layout=[], origin=sorted(t.origin), interleaved=True)
            return ListV(items=None, elem=opaque(t.origin, dtype=t.dtype), kind="tuple")
        if name == "repeat" and len(args) == 2 and self.const_int(args[1]) == 1 and len(t.axes) == 1:
            # v.repeat(n, 1): n rows, each a copy of the vector — the layout of the vector becomes the layout of the columns
            return t.but(axes=("K", t.axes[0]), layout=tuple((l[0] + 1, l[1], l[2]) for l in t.layout), alias=False)
        if name == "as_strided" and len(args) >= 2:
            # as_strided(shape, strides): a window on the storage. With strides taken from another tensor (`key.stride()`) it is a row-major
            # un-flattening only if that tensor is contiguous; literal contiguous strides are not recognised here (reported as undecided by `unk`)
            st_ = args[1]
            from_stride_call = isinstance(st_, ListV) and st_.items is None and (st_.order or ((),))[0] and str(st_.order[0][0]).startswith("stride:")
            if from_stride_call:
                self.pev("reshape", node, how="as_strided", shape=[self.shape_arg(args[0])], strides=str(st_.order[0][0])[7:] + ".stride()", layout=[repr(l) for l in t.layout], origin=sorted(t.origin))
                return t.but(layout=())
            self.pev("opaque_method", node, name=name)
            return opaque(t.origin, dtype=t.dtype)
        if name == "stride" and not args:
            return ListV(items=None, elem=TV(kind="pyint"), kind="tuple", order=((f"stride:{'+'.join(sorted(t.origin))}",), "same"))
        if name == "view_as" and len(args) == 1 and is_opaque(tv_of(args[0]) or TV()):
            return self.tensor_method(t, "view", [self.value_attr(tv_of(args[0]), "shape", node, env)], {}, node, env)
        if name == "diag_embed" and not args and not kwargs and len(t.axes) == 1:
            return self.tensor_method(t, "diag", [], {}, node, env)
        if name in ("flatten", "ravel", "reshape", "contiguous") and t.note == "grad-field":
            # flatten()/reshape()/contiguous() hand back the tensor's own storage only when it is contiguous; otherwise a copy
            r_ = self.tensor_method(t.but(note=""), name, args, kwargs, node, env)
            return r_.but(note="grad-field-maybe-copy") if isinstance(r_, TV) else r_
        if name in ("flatten", "ravel") and not args and not kwargs:
            return self.tensor_method(t, "reshape", [ListV(items=(Const(-1),))], {}, node, env)
        if name == "narrow":
            dim = args[0] if args else kwargs.get("dim")
            start = args[1] if len(args) > 1 else kwargs.get("start")
            length = args[2] if len(args) > 2 else kwargs.get("length")
            d = self.const_int(dim)
            ts, tl = tv_of(start), tv_of(length)
            if d is not None and d >= 0 and ts is not None and tl is not None:
                if ts.poly is not None and tl.poly is not None:
                    stop = ts.but(poly=ts.poly + tl.poly, origin=ts.origin | tl.origin, note="")
                else:
                    stop = self.elementwise(ts, tl, "add", node)
                    stop = stop.but(note="") if isinstance(stop, TV) else stop
                idx = ("tuple", [("slice", None, None, None)] * d + [("slice", start, stop, None)]) if d > 0 else ("slice", start, stop, None)
                return self.opaque_index(t, idx, node, env)
        if name == "size":
            shp = self.value_attr(t, "shape", node, env)
            d = args[0] if args else kwargs.get("dim")
            if d is None:
                return shp
            return self.subscript(shp, ("index", d), node, env)
        if name in ("numel", "nelement", "dim"):
            return TV(kind="pyint", note=name, poly=Poly.sym(f"{name}[{'+'.join(sorted(t.origin))}]"), origin=t.origin)
        if name in ("squeeze", "unsqueeze"):
            d = self.const_int(args[0]) if args else None
            lay = t.layout
            axes = t.axes
            if name == "unsqueeze" and d == 0:
                lay = tuple((l[0] + 1, l[1], l[2]) for l in lay)
                axes = ("K",) + tuple(a for a in t.axes)
            elif name == "squeeze" and d == 0:
                lay = tuple((l[0] - 1, l[1], l[2]) for l in lay if l[0] > 0)
                axes = t.axes[1:] if len(t.axes) > 1 else (Q,)
            self.pev("axis_shift", node, how=name, dim=d)
            sp_ = self.rows_of(t) if (self.inst is not None and t.rowspan is None and name == "squeeze" and d == 0) else t.rowspan
            return t.but(layout=lay, axes=axes, rowspan=sp_)  # (instance runs: the single row carried stays known after the axis is gone)
        if name == "diag":
            sl_ = getattr(self, "_slices", {}).get(id(t))
            if sl_ is not None and sl_[0] is t and not t.layout:
                r_ = t.but(axes=("R", Q), alias=False)
                self._slices[id(r_)] = (r_, sl_[1], sl_[2], sl_[3], sl_[4], "diag")
                return r_  # diag(v[lo:hi]): a diagonal block; what it means depends on where it is stored (tensor_store)
            lay = tuple((ax, l[1], l[2]) for l in t.layout if l[0] == 0 for ax in (0, 1))
            self.pev("diag", node, layout=[repr(l) for l in t.layout])
            return t.but(layout=lay, axes=("R", Q), alias=False)
        if name in ("t", "transpose", "permute", "movedim", "flip", "roll", "swapaxes", "fliplr", "flipud"):
            self.pev("axis_reorder", node, what=name)
            return t.but(layout=())
        if name in ("add_", "sub_") and t.note in ("grad-field", "grad-field-maybe-copy"):
            vt = tv_of(args[0]) if args else None
            self.pev("inplace", node, alias=False, target=name, target_note=t.note, target_origin=sorted(t.origin))
            self.pev("grad_write", node, aug=True, target=sorted(t.origin), target_note="key", value=repr(args[0]) if args else "", fresh=True,
                     value_origin=sorted(vt.origin) if vt is not None else None, value_is_none=False, maybe_copy=t.note == "grad-field-maybe-copy")
            return t
        if name == "chunk" and t.axes and t.axes[0] in ("R", "K") and self.const_int(kwargs.get("dim", args[1] if len(args) > 1 else Const(0))) == 0:
            # chunk(n) along the rows: n is the NUMBER of blocks asked for — each holds ceil(rows / n) rows, the last one the rest
            n_ = args[0] if args else kwargs.get("chunks")
            nc = self.const_int(n_) if n_ is not None else None
            rows = self.rows_of(t)
            if self.inst is not None and nc is not None and nc > 0 and rows is not None:
                rr = self.span_rows(rows)
                sz = -(-len(rr) // nc)
                return ListV(items=tuple(t.but(alias=True, rowspan=self.span_norm(rr[i:i + sz])) for i in range(0, len(rr), sz)), kind="tuple")
            self.pev("row_split", node, size=f"ceil(rows / {n_!r})", size_poly=None, tensor_origin=sorted(t.origin), by_count=True)
            return ListV(items=None, elem=t.but(alias=True, rowspan="?" if self.inst is not None else None), kind="tuple", order=(("row-blocks",), "same"))
        if name in ("split", "tensor_split", "split_with_sizes"):
            sizes = args[0] if args else kwargs.get("split_size_or_sections", kwargs.get("split_sizes", kwargs.get("split_size")))
            dim = kwargs.get("dim", args[1] if len(args) > 1 else None)
            d = self.const_int(dim) if dim is not None else 0
            if name == "split" and d == 0 and isinstance(sizes, (TV, Const)) and t.axes and t.axes[0] in ("R", "K"):
                # split(k) along the rows: consecutive blocks of k rows, the last one holding the remainder (library semantics)
                kc = self.const_int(sizes)
                rows = self.rows_of(t)
                if self.inst is not None and kc is not None and kc > 0 and rows is not None:
                    rr = self.span_rows(rows)
                    return ListV(items=tuple(t.but(alias=True, rowspan=self.span_norm(rr[i:i + kc])) for i in range(0, len(rr), kc)), kind="tuple")
                st_ = tv_of(sizes)
                self.pev("row_split", node, size=repr(sizes), size_poly=st_.poly if st_ is not None else None, tensor_origin=sorted(t.origin))
                return ListV(items=None, elem=t.but(alias=True, rowspan="?" if self.inst is not None else None), kind="tuple", order=(("row-blocks",), "same"))
            lst = self.to_list(sizes, "list", node) if not isinstance(sizes, TV) else None
            if name == "tensor_split":
                # tensor_split takes BOUNDARIES, not sizes: the running totals of the widths without the last one cut the axis into
                # one block per width, in order — anything else is not modelled
                e_ = lst.elem if isinstance(lst, ListV) and lst.items is None else None
                ok_ = isinstance(e_, TV) and self.psum_note(e_).note == "prefix-sum-next" and lst.order is not None and lst.order[1] in ("same[:-1]", "unordered[:-1]", "dict-insertion[:-1]")
                if not ok_:
                    self.pev("opaque_method", node, name=name)
                    return ListV(items=None, elem=opaque(t.origin, dtype=t.dtype), kind="tuple")
                lst = replace(lst, order=(lst.order[0], lst.order[1][:-5]))
            lay = [l for l in t.layout if l[0] == d]
            if isinstance(lst, ListV) and lst.items is not None and (lst.order is None or "literal" in str(lst.order)) and lay and "literal-sequence" in repr(lay[0][1]):
                # concrete sizes cutting an axis packed from a literal sequence of the same length
                self.pev("unpack", node, axis=d, layout=repr(lay[0][1]), layout_how=lay[0][2], loop_order=None, lo="<split>", hi="<split>", lo_poly=None, hi_poly=None, step="None",
                         in_loop=False, tensor_origin=sorted(t.origin), lo_origin=[], hi_origin=[], lo_note="prefix-sum-cur", hi_note="prefix-sum-next")
                piece = t.but(layout=tuple(l for l in t.layout if l[0] != d), alias=True)
                return ListV(items=tuple(piece for _ in lst.items), kind="tuple")
            if isinstance(lst, ListV) and lst.items is None:
                self.pev("unpack", node, axis=d, layout=repr(lay[0][1]) if lay else None, layout_how=lay[0][2] if lay else None, loop_order=repr(lst.order),
                         lo="<split>", hi="<split>", lo_poly=None, hi_poly=None, step="None", in_loop=True, tensor_origin=sorted(t.origin),
                         lo_origin=sorted(self.atoms_of(lst)), hi_origin=sorted(self.atoms_of(lst)), lo_note="prefix-sum-cur", hi_note="prefix-sum-next")
                piece = t.but(layout=tuple(l for l in t.layout if l[0] != d), alias=True)
                return ListV(items=None, elem=piece, kind="tuple", order=lst.order)
            self.pev("opaque_method", node, name=name)
            return ListV(items=None, elem=opaque(t.origin, dtype=t.dtype), kind="tuple")
        if name in ("backward", "retain_grad", "requires_grad_", "register_hook", "detach_", "zero_"):
            self.pev("autograd_state", node, what=name, target=sorted(t.origin), target_note=t.note)
            return NONE if name != "requires_grad_" else t
        if name.endswith("_") and not name.startswith("_"):
            self.pev("inplace", node, alias=t.alias, target=name, target_note=t.note, target_origin=sorted(t.origin))
            return t
        if name in ("sum", "mean", "abs", "norm", "float", "double", "isfinite", "all", "any", "item"):
            return opaque(t.origin, dtype=t.dtype)
        if name in ("new_empty", "new_zeros", "new_ones", "new_full", "new_tensor"):
            self.pev("create", node, fn=name, like=sorted(t.origin), dtype=t.dtype)
            return opaque(frozenset(), note=name, dtype=t.dtype, axes=("R", Q))
        self.pev("opaque_method", node, name=name)
        return opaque(t.origin, dtype=t.dtype)

    def shape_arg(self, a) -> str:
        c = self.const_int(a)
        if c is not None:
            return str(c)
        if isinstance(a, TV) and a.poly is not None and a.poly == Poly.sym("m"):
            return "rows"
        if isinstance(a, TV) and a.note in ("numel", "nelement") and c is None:
            return "-1"  # the number of elements of (the rest of) a shape: what -1 would infer (any other value makes reshape raise)
        if isinstance(a, TV) and a.note == "dim":
            return "rows" if a.poly is not None and repr(a.poly).startswith("dim0") else "dim"
        if isinstance(a, ListV):
            if a.order is not None and a.order[0] and str(a.order[0][0]).startswith("shape:"):
                return "shape(" + str(a.order[0][0])[6:] + ")"
            if a.order is not None and a.order[0] and a.order[0][0] == "concat-shape":
                return "+".join(str(x) for x in a.order[0][1:])
            return "<tuple>"
        return "<expr>"

    def concat_lists(self, a, b, node):
        # (rows,) + key.shape  /  (-1,) + key.shape
        def is_shape(x):
            return isinstance(x, ListV) and x.order is not None and x.order[0] and str(x.order[0][0]).startswith("shape:")

        if isinstance(a, ListV) and a.items is None and a.order is not None and a.order[0] and a.order[0][0] == "concat-shape" and isinstance(b, ListV) and b.items is not None:
            # (rows,) + key.shape + (n,): one more factor after the key's own axes
            return replace(a, order=(tuple(a.order[0]) + tuple(self.shape_arg(x) for x in b.items), "same"))
        if is_shape(b) and isinstance(a, ListV) and a.items is not None:
            return ListV(items=None, elem=TV(kind="pyint"), kind="tuple", order=(("concat-shape",) + tuple(self.shape_arg(x) for x in a.items) + (self.shape_arg(b),), "same"))
        if isinstance(a, ListV) and isinstance(b, ListV) and a.items is not None and len(a.items) == 1 and self.const_int(a.items[0]) == 0 \
                and b.items is None and b.order is not None and b.order[1].endswith("[:-1]") and isinstance(b.elem, TV) and b.elem.note == "prefix-sum-next":
            # [0] + cumulative[:-1]: the prefix sums *before* each element
            cur = None
            if b.elem.poly is not None:
                ps = [x for x in b.elem.poly.symbols() if x.startswith("psum[")]
                if len(ps) == 1 and ps[0] in getattr(self, "psums", {}) and b.elem.poly == Poly.sym(ps[0]) + self.psums[ps[0]]:
                    cur = Poly.sym(ps[0])
            return ListV(items=None, elem=b.elem.but(note="prefix-sum-cur", poly=cur), kind=a.kind, order=(order_src(b.order), b.order[1][:-5]))
        if isinstance(a, ListV) and isinstance(b, ListV) and a.items is not None and len(a.items) == 1 and self.const_int(a.items[0]) == 0 \
                and b.items is None and b.order is not None and not b.order[1].endswith("[:-1]") and isinstance(b.elem, TV) and b.elem.note == "prefix-sum-next":
            # [0, *accumulate(xs)]  /  [0] + list(accumulate(xs)): what accumulate(xs, initial=0) yields — the i-th item is the sum before xs[i],
            # one more item (the total) closes the list
            cur = None
            if b.elem.poly is not None:
                ps = [x for x in b.elem.poly.symbols() if x.startswith("psum[")]
                if len(ps) == 1 and ps[0] in getattr(self, "psums", {}) and b.elem.poly == Poly.sym(ps[0]) + self.psums[ps[0]]:
                    cur = Poly.sym(ps[0])
            if cur is not None:
                return ListV(items=None, elem=b.elem.but(note="prefix-sum-cur", poly=cur), kind=a.kind, order=b.order)
        def literal_keys(x):
            return isinstance(x, ListV) and x.items is not None and x.items and all(isinstance(i, TV) and i.note == "key" for i in x.items)

        if isinstance(a, ListV) and isinstance(b, ListV) and ((a.items is None and a.order and literal_keys(b)) or (b.items is None and b.order and literal_keys(a))):
            lit, abs_ = (b, a) if literal_keys(b) else (a, b)
            lit_order = (tuple(sorted({o for i in lit.items for o in i.origin})), "same")
            lit_sum = ListV(items=None, elem=join_all(lit.items), kind=lit.kind, order=lit_order)
            return self.concat_lists(abs_, lit_sum, node) if lit is b else self.concat_lists(lit_sum, abs_, node)
        if isinstance(a, ListV) and isinstance(b, ListV) and a.items is None and b.items is None and a.order and b.order:
            oa, ob = a.order, b.order
            mode = "same" if oa[1] == "same" and ob[1] == "same" else ("unordered" if {oa[1], ob[1]} <= {"same", "unordered"} else "mixed")
            e = join(a.elem, b.elem) if a.elem is not None and b.elem is not None else (a.elem or b.elem)
            return ListV(items=None, elem=e, kind=a.kind, order=(order_src(oa) + order_src(ob), mode))
        return super().concat_lists(a, b, node)

    def call_lib(self, lib, fn, args, kwargs, node, env):
        flat = []
        for a in list(args) + list(kwargs.values()):
            if isinstance(a, ListV):
                flat.extend(a.items if a.items is not None else [a.elem])
            else:
                flat.append(a)
        if lib == "torch.autograd." and fn in ("grad", "backward"):
            return self.autograd(fn, args, kwargs, node, env)
        if lib == "torch." and fn in ("_foreach_add_", "_foreach_sub_") and len(args) >= 2 and isinstance(args[0], ListV):
            # torch._foreach_add_(xs, ys): xs[i] += ys[i] for every i, in place
            xs, ys = args[0], args[1]
            pairs = list(zip(xs.items, ys.items)) if xs.items is not None and isinstance(ys, ListV) and ys.items is not None and len(xs.items) == len(ys.items) else \
                [(xs.elem if xs.items is None else join_all(xs.items), (ys.elem if ys.items is None else join_all(ys.items)) if isinstance(ys, ListV) else ys)]
            for x_, y_ in pairs:
                tx, ty = tv_of(x_), tv_of(y_)
                if tx is None:
                    return self.unk(f"{fn} on non-tensors", node)
                self.pev("inplace", node, alias=tx.alias, target=fn, target_note=tx.note, target_origin=sorted(tx.origin))
                if tx.note in ("grad-field", "grad-field-maybe-copy"):
                    self.pev("grad_write", node, aug=True, target=sorted(tx.origin), target_note="key", value=repr(y_), value_dtype=ty.dtype if ty is not None else None, target_dtype=tx.dtype,
                             fresh=True, value_origin=sorted(ty.origin) if ty is not None else None, value_is_none=False, maybe_copy=tx.note == "grad-field-maybe-copy")
            return NONE
        if lib == "torch." and fn == "get_default_dtype" and not args:
            return MetaV("dtype", "Default")
        if lib == "torch." and fn == "is_tensor" and len(args) == 1:
            # torch.is_tensor(x) is isinstance(x, torch.Tensor)
            return self.call_builtin("isinstance", [args[0], ExtV("torch.Tensor")], {}, node, env)
        if fn == "vmap":
            cs_ = kwargs.get("chunk_size")
            ct_ = tv_of(cs_) if cs_ is not None and not (isinstance(cs_, Const) and cs_.v is None) else None
            syms_ = sorted(self.symbols_in(ct_)) if ct_ is not None else []
            caps_ = []
            if ct_ is not None and ct_.poly is not None:
                for sy in ct_.poly.symbols():
                    d_ = self.sym_defs.get(str(sy))
                    if d_ and d_[0] == "min":
                        caps_ += [int(pl.const_value()) for pl in d_[1:] if isinstance(pl, Poly) and pl.const_value() is not None]
            self.pev("vmap", node, kwargs={k: repr(v) for k, v in kwargs.items()}, chunk_given=ct_ is not None, chunk_const=self.const_int(cs_) if ct_ is not None else None,
                     chunk_syms=syms_, chunk_caps=caps_, chunk_is_dim=bool(ct_ is not None and ct_.note == "dim" and ct_.poly is not None and len(ct_.poly.symbols()) == 1))
            vv_ = VmapV(args[0])
            if self.inst is not None:
                self._vmap_chunks = getattr(self, "_vmap_chunks", {})
                self._vmap_chunks[id(vv_)] = (vv_, self.const_int(cs_) if ct_ is not None else None, ct_ is not None)
            return vv_
        dk_ = kwargs.get("dtype")
        if not any(is_opaque(x) for x in flat) and fn in ("zeros", "ones", "empty", "full") and isinstance(dk_, MetaV) and isinstance(dk_.tag, str) and dk_.tag.startswith("dt:"):
            # torch.empty(x.shape, dtype=x.dtype, device=x.device): a fresh tensor with the dtype of a pipeline tensor
            self.pev("create", node, fn=fn, like=None)
            shp_ = args[0] if args else kwargs.get("size")
            lead_ = isinstance(shp_, ListV) and shp_.order is not None and shp_.order[0] and shp_.order[0][0] == "concat-shape" and len(shp_.order[0]) >= 3
            # zeros((n,) + key.shape): one leading axis in front of a key's shape — a buffer of n rows
            return opaque(frozenset(), note=fn, axes=("R", Q) if lead_ else (Q,), dtype=dk_.tag)
        if not any(is_opaque(x) for x in flat):
            return super().call_lib(lib, fn, args, kwargs, node, env)
        a0 = args[0] if args else None
        if fn in ("cat", "concatenate", "stack", "vstack", "hstack"):
            lst = self.to_list(a0, "list", node)
            dim = kwargs.get("dim", kwargs.get("axis", args[1] if len(args) > 1 else None))
            d = self.const_int(dim) if dim is not None else 0
            e = lst.elem if lst.items is None else (join_all(lst.items))
            if fn == "hstack":
                # hstack = cat along the second axis (the first one for 1-d members)
                d = 1 if isinstance(e, TV) and len(e.axes) > 1 else 0
            order = lst.order
            if lst.items is not None and order is None:
                order = (("literal-sequence",), "same")
            org = e.origin if isinstance(e, TV) else frozenset()
            res = self._pack(fn, d, lst, e, order, org, node)
            if self.inst is not None and isinstance(res, TV):
                res = res.but(rowspan=self._pack_span(fn, d, lst, e))
            return res
        if fn in ("zeros_like", "ones_like", "empty_like", "zeros", "ones", "empty", "full", "full_like", "rand_like", "randn_like"):
            src = tv_of(a0)
            if fn in ("full_like", "full"):
                # full_like(x, 1) is ones_like(x), full_like(x, 0) is zeros_like(x): the event names what is created, not how it is spelt
                fv = kwargs.get("fill_value", args[1] if len(args) > 1 else None)
                c_ = self.const_int(fv) if fv is not None else None
                if c_ is not None and c_ in (0, 1):
                    fn = ("ones" if c_ == 1 else "zeros") + ("_like" if fn.endswith("_like") else "")
            self.pev("create", node, fn=fn, like=sorted(src.origin) if isinstance(src, TV) else None)
            dk = kwargs.get("dtype")
            dt = src.dtype if isinstance(src, TV) and fn.endswith("_like") else (dk.tag if isinstance(dk, MetaV) and dk.tag else "Default")
            if isinstance(src, TV) and fn.endswith("_like") and src.note == "key" and fn.startswith("zeros"):
                dt = "dt:=key"  # zero gradient materialised for the corresponding input
            return opaque(src.origin if isinstance(src, TV) and fn.endswith("_like") else frozenset(), note=fn, axes=src.axes if isinstance(src, TV) and fn.endswith("_like") else (Q,), dtype=dt)
        t0 = tv_of(a0)
        if t0 is not None and is_opaque(t0):
            return self.tensor_method(t0, fn, args[1:], kwargs, node, env)
        self.pev("opaque_op", node, fn=lib + fn)
        return opaque()

    def _pack_span(self, fn, d, lst, e):
        """Rows carried by cat/stack/vstack of `lst` (instance runs)."""
        rowlike = isinstance(e, TV) and e.axes and e.axes[0] in ("R", "K")
        along_rows = (fn == "vstack" and rowlike) or (fn in ("cat", "concatenate") and (d or 0) == 0 and rowlike)
        if not along_rows:
            if fn in ("stack", "vstack") and (d or 0) == 0:
                return None  # a new leading axis: a fresh stack (its rows are the members)
            return self.common_span(lst.items if lst.items is not None else [e])
        if lst.items is None:
            return "?"
        rows = []
        for x in lst.items:
            sp = self.rows_of(tv_of(x)) if tv_of(x) is not None else None
            if sp is None:
                return "?"
            rows += self.span_rows(sp)
        return tuple((r, r + 1) for r in rows) if rows != sorted(set(rows)) else (self.span_norm(rows) if rows else "?")

    def _pack(self, fn, d, lst, e, order, org, node):
        if fn in ("cat", "concatenate") and (d or 0) == 0 and isinstance(e, TV) and e.axes and e.axes[0] == "K":
            # cat([t.unsqueeze(0) for t in ts], 0) is stack(ts, 0): every member brings one row, a fresh unit axis
            self.pev("pack", node, fn="stack", dim=0, order=repr(order), elem=repr(e), in_loop=bool(self.loop_orders), spelled=fn)
            lay = ((0, order, "stack"),) + tuple(e.layout)
            return opaque(org, axes=("R", Q), layout=lay, dtype=e.dtype)
        self.pev("pack", node, fn=fn, dim=d, order=repr(order), elem=repr(e), in_loop=bool(self.loop_orders))
        inner = e.layout if isinstance(e, TV) else ()
        if fn in ("stack", "vstack"):
            dd = 0 if fn == "vstack" else (d if d is not None and d >= 0 else -1)
            shift = 0 if fn == "vstack" and isinstance(e, TV) and e.axes and e.axes[0] in ("K", "R") else 1
            lay = ((dd, order, fn),) + tuple((l[0] + (shift if l[0] >= dd >= 0 else 0), l[1], l[2]) for l in inner)
            return opaque(org, axes=("R", Q), layout=lay, dtype=e.dtype if isinstance(e, TV) else "M")
        lay = ((d if d is not None else 0, order, fn),) + tuple(l for l in inner if l[0] != d)
        axes = (Q,) if (d or 0) == 0 and not (isinstance(e, TV) and len(e.axes) > 1) else ("R", Q)
        return opaque(org, axes=axes, layout=lay, dtype=e.dtype if isinstance(e, TV) else "M")

    def autograd(self, fn, args, kwargs, node, env):
        names = ["outputs", "inputs", "grad_outputs", "retain_graph", "create_graph", "only_inputs", "allow_unused", "is_grads_batched", "materialize_grads"]
        if fn == "backward":
            names = ["tensors", "grad_tensors", "retain_graph", "create_graph", "grad_variables", "inputs"]
        vals = dict(zip(names, args))
        vals.update(kwargs)

        def desc(v):
            if isinstance(v, ListV):
                return {"order": repr(v.order), "atoms": sorted(self.atoms_of(v)), "elem": repr(v.elem)[:80] if v.items is None else [repr(x)[:40] for x in v.items]}
            return repr(v)

        rg = vals.get("retain_graph")
        self.pev("autograd", node, fn=fn, outputs=desc(vals.get("outputs", vals.get("tensors"))), inputs=desc(vals.get("inputs")),
                 grad_outputs=desc(vals.get("grad_outputs", vals.get("grad_tensors"))),
                 retain_graph=repr(rg), retain_graph_origin=sorted(rg.origin) if isinstance(rg, TV) else None,
                 retain_graph_const=rg.v if isinstance(rg, Const) else None,
                 retain_graph_pure=isinstance(rg, TV) and rg.note == "flag",
                 create_graph=repr(vals.get("create_graph")), create_graph_origin=sorted(vals["create_graph"].origin) if isinstance(vals.get("create_graph"), TV) else None,
                 allow_unused=vals.get("allow_unused").v if isinstance(vals.get("allow_unused"), Const) else repr(vals.get("allow_unused")),
                 materialize_grads=vals.get("materialize_grads").v if isinstance(vals.get("materialize_grads"), Const) else None,
                 vmapped=getattr(self, "in_vmap", 0) > 0 or not (vals.get("is_grads_batched") is None or (isinstance(vals.get("is_grads_batched"), Const) and not vals["is_grads_batched"].v)),
                 grads_batched=repr(vals.get("is_grads_batched")) if vals.get("is_grads_batched") is not None else None, loop_depth=len(self.loop_orders),
                 rowspan=self._go_span(vals.get("grad_outputs", vals.get("grad_tensors"))) if self.inst is not None else None)
        if fn == "backward":
            return NONE
        inputs = vals.get("inputs")
        lst = self.to_list(inputs, "tuple", node) if inputs is not None else None
        unused = isinstance(vals.get("allow_unused"), Const) and vals["allow_unused"].v is True
        if isinstance(vals.get("materialize_grads"), Const) and vals["materialize_grads"].v is True:
            unused = False  # torch fills the missing gradients with zeros itself
        in_dt = "dt:=key"  # each gradient has the dtype of the input it belongs to
        # torch may return the very same tensor object for several inputs (e.g. both operands of an addition): results may alias each other
        elem = opaque(frozenset(["autograd"]) | (self.atoms_of(lst) if isinstance(lst, ListV) else frozenset()), note="optional" if unused else "", dtype=in_dt, alias=True)
        if self.inst is not None:
            elem = elem.but(rowspan=self._go_span(vals.get("grad_outputs", vals.get("grad_tensors"))))
        if isinstance(lst, ListV):
            if lst.items is not None:
                return ListV(items=tuple(elem for _ in lst.items), kind="tuple", order=lst.order)
            return ListV(items=None, elem=elem, kind="tuple", order=lst.order)
        return elem

    def _go_span(self, go):
        """Rows of the full stack of cotangents that the grad_outputs of one sweep carry (instance runs)."""
        if go is None:
            return None
        vals = (go.items if go.items is not None else [go.elem]) if isinstance(go, ListV) else [go]
        sps = []
        for v in vals:
            t = tv_of(v)
            if t is None:
                continue
            if t.rowspan == "?" or _partial_buffer(t.rowspan):
                return "?"
            sps.append(t.rowspan if t.rowspan is not None else (self.rows_of(t)))
        sps = [x for x in sps if x is not None]
        if not sps:
            return None
        return sps[0] if all(x == sps[0] for x in sps) else "?"

    def call_vmap(self, f, args, kwargs, node, env):
        self.pev("vmap_call", node)
        if self.inst is not None:
            # instance runs: vmap's own chunk_size against the number of rows of the block it is applied to
            rec = getattr(self, "_vmap_chunks", {}).get(id(f))
            rows_ = None
            for a in args:
                for x in ((a.items if a.items is not None else [a.elem]) if isinstance(a, ListV) else [a]):
                    sp_ = self.rows_of(x) if isinstance(x, TV) else None
                    if sp_ is not None:
                        rows_ = self.span_len(sp_)
            if rec is not None and rec[0] is f and rec[2]:
                self.pev("vmap_chunk_vs_rows", node, chunk=rec[1], rows=rows_)
        new_args = []
        for a in args:
            if isinstance(a, ListV):
                e = a.elem if a.items is None else None
                strip = lambda t: t.but(axes=t.axes[1:] if len(t.axes) > 1 else (Q,), rowspan=(self.rows_of(t) if (self.inst is not None and t.rowspan is None) else t.rowspan)) if isinstance(t, TV) else t
                new_args.append(replace(a, elem=strip(e)) if a.items is None else replace(a, items=tuple(strip(x) for x in a.items)))
            elif isinstance(a, TV):
                new_args.append(a.but(axes=a.axes[1:] if len(a.axes) > 1 else (Q,), rowspan=(self.rows_of(a) if (self.inst is not None and a.rowspan is None) else a.rowspan)))
            else:
                new_args.append(a)
        self.in_vmap = getattr(self, "in_vmap", 0) + 1
        try:
            r = self.interp.call_value(f.func, new_args, kwargs, node, env)
        finally:
            self.in_vmap -= 1
        def batched(x):
            if isinstance(x, TV):
                return x.but(axes=("R",) + tuple(x.axes), layout=tuple((l[0] + 1, l[1], l[2]) for l in x.layout))
            if isinstance(x, ListV):  # a tuple / list of outputs: each gets the batch axis
                return replace(x, items=tuple(batched(y) for y in x.items)) if x.items is not None else replace(x, elem=batched(x.elem), head=None, tail=(), tail_elem=None)
            return x

        return batched(r)

    # ------------------------------------------------------------------ misc
    def call_builtin(self, fn, args, kwargs, node, env):
        if fn in ("min", "max") and self.inst is not None and len(args) == 2:
            r_ = self.inst_minmax(fn, args, node)
            if r_ is not None:
                return r_
        if fn == "hasattr" and args and is_opaque(args[0]):
            return TRUE if isinstance(args[1], Const) and args[1].v == "grad" else TV(kind="pybool", dtype="Bool")
        if fn == "isinstance" and args and is_opaque(args[0]):
            return TRUE if isinstance(args[1], ExtV) and args[1].name.endswith("Tensor") else TV(kind="pybool", dtype="Bool")
        if fn == "isinstance" and args and isinstance(args[0], (ListV, SetV)) and isinstance(args[1], ExtV) and args[1].name.endswith("Tensor"):
            return FALSE
        if fn == "isinstance" and args and isinstance(args[0], ListV) and isinstance(args[1], ExtV) and args[1].name.split(".")[-1] in ("Sequence", "list", "tuple", "Sized", "Collection", "Iterable"):
            return self.isinstance_(args[0], args[1], node)
        if fn == "setattr":
            self.pev("setattr", node, attr=args[1].v if isinstance(args[1], Const) else "?", target=repr(args[0]))
            return NONE
        if fn == "zip":
            strict = isinstance(kwargs.get("strict"), Const) and kwargs["strict"].v is True
            args = [a if isinstance(a, tuple) else self.consume(a, node, full=strict) for a in args]
            lists = [self.to_list(a, "list", node) for a in args if not isinstance(a, tuple)]
            all_concrete = bool(lists) and all(isinstance(l, ListV) and l.items is not None for l in lists)  # known elements, paired position by position
            if any(isinstance(a, tuple) for a in args):
                return super().call_builtin(fn, args, kwargs, node, env)  # zip(*xs): a transposition, recorded as such by zip()
            self.pev("zip", node, orders=[(repr(l.order) if (l.items is None or l.order is not None) and not all_concrete else "(('literal-sequence',), 'same')") if isinstance(l, ListV) else "?" for l in lists],
                     in_loop=bool(self.loop_orders))
        return super().call_builtin(fn, args, kwargs, node, env)

    def zip(self, args, node):
        if len(args) == 1 and isinstance(args[0], tuple):
            outer = self.to_list(args[0][1], "list", node)
            e_ = (outer.elem if outer.items is None else (join_all(outer.items) if outer.items else None)) if isinstance(outer, ListV) else None
            if is_opaque(e_):
                # zip(*tensors): walks the tensors row by row in parallel — element r is the tuple of the r-th rows. Row blocks of one row (the only case the
                # pipeline uses it for) give one tuple: the rows themselves, as `t.squeeze(0)` would
                self.pev("zip_transpose", node, outer=repr(outer.order), inner="rows")
                one = self.rows_of(e_) is not None and self.span_len(self.rows_of(e_)) == 1
                row = self.tensor_method(e_, "squeeze", [Const(0)], {}, node, None) if (one or self.inst is None) else e_.but(axes=e_.axes[1:] if len(e_.axes) > 1 else (Q,), rowspan="?")
                tup = ListV(items=None, elem=row, kind="tuple", order=outer.order, over=outer.over) if outer.items is None else ListV(items=tuple(row for _ in outer.items), kind="tuple")
                return ListV(items=(tup,), kind="list") if one else ListV(items=None, elem=tup, kind="list", order=(("rows",), "same"))
            return super().zip(args, node)  # zip(*rows)
        lists = [self.to_list(a, "list", node) for a in args]
        if all(isinstance(l, ListV) and l.items is None and l.order is not None for l in lists) and lists:
            real = [l for l in lists if l.order[1] != "const"] or lists
            if len(real) < len(lists):
                o = real[0].order if len({l.order for l in real}) == 1 else (tuple(x for l in real for x in order_src(l.order)), "mixed")
                return ListV(items=None, elem=ListV(items=tuple(l.elem for l in lists), kind="tuple"), kind="list", order=o)
            modes = {l.order[1] for l in lists}
            srcs = [order_src(l.order) for l in lists]
            if len(set(srcs)) == 1:
                order = lists[0].order if len(modes) == 1 else (srcs[0], "mixed")
            else:
                order = (tuple(x for s in srcs for x in s), "same" if modes == {"same"} else "mixed")
            return ListV(items=None, elem=ListV(items=tuple(l.elem for l in lists), kind="tuple"), kind="list", order=order)
        return super().zip(args, node)

    def list_method(self, lst, name, args, kwargs, node, env):
        if lst.kind == "counter":
            if name == "total" and not args and not kwargs:
                return self.length(replace(lst, kind="list"), node)  # Counter.total(): the number of elements counted, duplicates included
            return self.unk(f"Counter.{name}", node)
        if name == "numel" and lst.kind == "tuple" and lst.items is None:
            src = str(lst.order[0][0])[6:] if lst.order and lst.order[0] else "?"
            return TV(kind="pyint", note="numel", poly=Poly.sym(f"numel[{src}]"))
        if name == "append" and self.interp.join_depth > 0 and not (lst.items is not None and lst.born is not None and lst.born == tuple(self.interp.open_lids)):
            e = lst.elem if lst.items is None else (join_all(lst.items) if lst.items else None)
            lo = self.current_loop_order(env)
            if lst.items is not None and len(lst.items) == 0:
                order = lo
            elif lst.order is not None and lo is not None and lst.order == lo:
                order = lo
            else:
                order = lst.order if lst.order is not None else lo
            new = ListV(items=None, elem=args[0] if e is None else join(e, args[0]), kind=lst.kind, order=order, over=lst.over)
            self.interp.rebind(node.func.value, new, env, node)
            return NONE
        if name == "append" and lst.items is None:
            self.interp.rebind(node.func.value, self.appended(lst, args[0]), env, node)
            return NONE
        return super().list_method(lst, name, args, kwargs, node, env)

    def appended(self, lst, x):
        """One more element after a loop-built (summarised) list, outside any summarised loop: keeps the order, extended by one trailing item that stays known."""
        order = (order_src(lst.order) + ("then-last",), lst.order[1]) if lst.order is not None else None
        new = ListV(items=None, elem=join(lst.elem, x) if lst.elem is not None else x, kind=lst.kind, order=order)
        if lst.elem is not None:
            pt = lst.parts()
            ln = tv_of(lst.length) if lst.length is not None else None
            new = replace(new, head=pt[0] if pt else lst.elem, tail=(pt[1] if pt else ()) + (x,), tail_elem=new.elem,
                          length=ln.but(poly=ln.poly + Poly.const(1), size_of=None) if ln is not None and ln.poly is not None else None)
        return new

    def pairwise_abstract(self, lst, node):
        """pairwise(accumulate(xs, initial=0)): the (sum before, sum including) pair of each element of xs."""
        e = lst.elem
        if isinstance(e, TV) and e.note == "prefix-sum-cur" and e.poly is not None:
            ps = [x for x in e.poly.symbols() if x.startswith("psum[")]
            if len(ps) == 1 and ps[0] in getattr(self, "psums", {}) and e.poly == Poly.sym(ps[0]) and getattr(lst, "psum_initial", True):
                nxt = e.but(note="prefix-sum-next", poly=e.poly + self.psums[ps[0]])
                return ListV(items=None, elem=ListV(items=(e, nxt), kind="tuple"), kind="list", order=lst.order)
        return None

    def accumulate(self, v, node, initial=False):
        lst = self.to_list(v, "list", node)
        if isinstance(lst, ListV) and lst.items is not None and len(lst.items) <= 8:
            return self.accumulate_concrete(lst, node, initial)
        if isinstance(lst, ListV):
            self.pev("accumulate", node, order=repr(lst.order), initial=initial)
            w = lst.elem.poly if isinstance(lst.elem, TV) and lst.elem.poly is not None else None
            key = f"{w!r}|{lst.order!r}" if w is not None else f"anon{self.seq}|{lst.order!r}"
            wp = w if w is not None else Poly.sym(f"width[{key}]")
            if not hasattr(self, "psums"):
                self.psums = {}
            self.psums[f"psum[{key}]"] = wp
            if initial:
                # accumulate(xs, initial=0): the i-th item is the sum BEFORE xs[i] (one more item, the total, closes the list)
                return ListV(items=None, elem=TV(kind="pyint", note="prefix-sum-cur", origin=frozenset(self.atoms_of(lst)), poly=Poly.sym(f"psum[{key}]")), kind="list", order=lst.order)
            return ListV(items=None, elem=TV(kind="pyint", note="prefix-sum-next", origin=frozenset(self.atoms_of(lst)), poly=Poly.sym(f"psum[{key}]") + wp), kind="list", order=lst.order)
        return super().accumulate(v, node, initial)

from .values import join_all  # noqa: E402  (kept importable from here)
