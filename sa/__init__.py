"""Static-analysis engine for TorchJD/torchjd (see /verif/DESIGN.md).

Nothing in this package imports or executes torchjd: every check parses the source files under
``<repo>/src/torchjd`` and decides from syntax trees, control-flow graphs, the resolved call graph and
an abstract interpreter.
"""

__all__ = ["AnalysisError"]


class AnalysisError(Exception):
    """The analysis no longer applies (vanished anchor, unresolvable construct, floor missed).

    Reported as ``ANALYSIS-ERROR`` with exit status 2: distinct from a violation, never a silent pass.
    """
