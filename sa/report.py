"""Obligations, verdicts, evidence and known findings (DESIGN.md section 4)."""

from __future__ import annotations

import ast
import json
import os
import re
import time
from dataclasses import dataclass, field

VERIF = os.path.dirname(os.path.dirname(os.path.abspath(__file__)))
EVIDENCE_DIR = os.path.join(VERIF, "evidence")
KNOWN_FINDINGS = os.path.join(VERIF, "known_findings.json")

OK, VIOLATED, UNDECIDED = "ok", "violated", "undecided"


_NT_CACHE: dict = {}


def norm_text(node_or_text) -> str:
    """Normalised statement text used in construct keys (never line numbers)."""
    if isinstance(node_or_text, ast.AST):
        hit = _NT_CACHE.get(id(node_or_text))
        if hit is not None and hit[0] is node_or_text:
            return hit[1]
        t = _norm_text(node_or_text)
        _NT_CACHE[id(node_or_text)] = (node_or_text, t)
        return t
    return _norm_text(node_or_text)


def _norm_text(node_or_text) -> str:
    if isinstance(node_or_text, ast.AST):
        try:
            t = ast.unparse(node_or_text)
        except Exception:  # pragma: no cover
            t = type(node_or_text).__name__
    else:
        t = str(node_or_text)
    t = re.sub(r"\s+", " ", t).strip()
    return t if len(t) <= 160 else t[:157] + "..."


@dataclass
class Obligation:
    rule: str
    construct: str
    status: str
    detail: str = ""
    loc: str = ""
    nontrivial: bool = True
    derivation: object = None

    def key(self) -> tuple[str, str]:
        return (self.rule, self.construct)

    def to_json(self) -> dict:
        d = {"rule": self.rule, "construct": self.construct, "status": self.status, "loc": self.loc}
        if self.detail:
            d["detail"] = self.detail
        if self.derivation is not None:
            d["derivation"] = self.derivation
        return d


@dataclass
class CheckContext:
    prop: str
    tier: str = "quick"
    seed: int = 0
    obligations: list[Obligation] = field(default_factory=list)
    functions_analysed: set[str] = field(default_factory=set)
    call_sites: int = 0
    paths: int = 0
    rules: dict[str, str] = field(default_factory=dict)  # rule id -> text
    trusted_base: list[str] = field(default_factory=list)
    assumptions: list[str] = field(default_factory=list)
    notes: list[str] = field(default_factory=list)
    extra: dict = field(default_factory=dict)
    floors: list[tuple[str, int, int]] = field(default_factory=list)  # (what, found, minimum)

    # ---- recording -----------------------------------------------------------------------
    def rule(self, rid: str, text: str) -> None:
        self.rules[rid] = text

    def ok(self, rule, construct, detail="", loc="", nontrivial=True, derivation=None):
        k = (rule, construct)
        seen = self.__dict__.setdefault("_ok_seen", set())
        if k in seen:
            return
        seen.add(k)
        self.obligations.append(Obligation(rule, construct, OK, detail, loc, nontrivial, derivation))

    def violated(self, rule, construct, detail="", loc="", derivation=None):
        self.obligations.append(Obligation(rule, construct, VIOLATED, detail, loc, True, derivation))

    def undecided(self, rule, construct, detail="", loc="", derivation=None):
        self.obligations.append(Obligation(rule, construct, UNDECIDED, detail, loc, True, derivation))

    def require(self, cond: bool, rule, construct, detail_ok="", detail_bad="", loc="", nontrivial=True, derivation=None):
        if cond:
            self.ok(rule, construct, detail_ok, loc, nontrivial, derivation)
        else:
            self.violated(rule, construct, detail_bad or detail_ok, loc, derivation)
        return cond

    def floor(self, what: str, found: int, minimum: int) -> None:
        self.floors.append((what, found, minimum))

    def analysed(self, *qualnames: str) -> None:
        self.functions_analysed.update(qualnames)


def load_known_findings() -> list[dict]:
    if not os.path.exists(KNOWN_FINDINGS):
        return []
    with open(KNOWN_FINDINGS, encoding="utf-8") as fh:
        data = json.load(fh)
    return data.get("findings", [])


def _matches_known(ob: Obligation, prop: str, known: list[dict]) -> dict | None:
    for k in known:
        if k.get("status") != "known" or k.get("property") != prop:
            continue
        if k.get("rule") != ob.rule:
            continue
        if k.get("construct") == ob.construct or (k.get("construct_pattern") and re.fullmatch(k["construct_pattern"], ob.construct)):
            return k
    return None


def finish(ctx: CheckContext, wall_s: float, source_digest: str, repo: str, write_evidence: bool = True) -> int:
    """Prints the verdict, writes evidence (+ replay files) and returns the exit status."""
    known = load_known_findings()
    viol, known_hits, undec = [], [], []
    seen_v = set()
    for ob in ctx.obligations:
        if ob.status == VIOLATED:
            if ob.key() in seen_v:
                continue
            seen_v.add(ob.key())
            k = _matches_known(ob, ctx.prop, known)
            (known_hits if k else viol).append((ob, k))
        elif ob.status == UNDECIDED:
            undec.append(ob)
    floor_fail = [(w, f, m) for (w, f, m) in ctx.floors if f < m]

    total = len(ctx.obligations)
    discharged = sum(1 for o in ctx.obligations if o.status == OK)
    nontriv = {o.key() for o in ctx.obligations if o.nontrivial}

    samples = []
    seen_rules: dict[str, int] = {}
    for o in ctx.obligations:
        n = seen_rules.get(o.rule, 0)
        if n < 2 or o.status != OK:
            samples.append(o.to_json())
        seen_rules[o.rule] = n + 1
    samples = samples[:80]

    replay_paths = []
    if write_evidence:
        os.makedirs(os.path.join(EVIDENCE_DIR, "replay"), exist_ok=True)
        # remove stale replay files of this property
        for fn in os.listdir(os.path.join(EVIDENCE_DIR, "replay")):
            if fn.startswith(ctx.prop + "-"):
                os.remove(os.path.join(EVIDENCE_DIR, "replay", fn))
        for i, (ob, _) in enumerate(viol):
            p = os.path.join(EVIDENCE_DIR, "replay", f"{ctx.prop}-{i}.json")
            with open(p, "w", encoding="utf-8") as fh:
                json.dump({"property": ctx.prop, "repo": repo, "source_digest": source_digest, "finding": ob.to_json()}, fh, indent=1)
            replay_paths.append(p)
    else:
        replay_paths = [f"<unsaved:{i}>" for i in range(len(viol))]

    ev = {
        "property_id": ctx.prop,
        "tier": ctx.tier,
        "seed": ctx.seed,
        "level": "other",
        "coverage": {
            "explanation": "Static analysis of /repo/src/torchjd (parsed afresh on this run; no torchjd code imported or "
            "executed). Rules applied: " + " | ".join(f"{k}: {v}" for k, v in ctx.rules.items()),
            "obligations": total,
            "discharged": discharged,
            "evaluations": total,
            "distinct_nontrivial": len(nontriv),
            "rule": "one obligation per (rule, construct) instance found in the tree; non-trivial = its discharge needed a "
            "path, flow, resolution or typing derivation rather than mere presence of a symbol",
            "samples": samples,
            "functions_analysed": sorted(ctx.functions_analysed),
            "n_functions_analysed": len(ctx.functions_analysed),
            "call_sites": ctx.call_sites,
            "paths": ctx.paths,
            "floors": [{"what": w, "found": f, "minimum": m} for (w, f, m) in ctx.floors],
            "source_digest": source_digest,
            "trusted_base": ctx.trusted_base,
            "exhaustive": True,
            "undecided": [o.to_json() for o in undec][:40],
            "notes": ctx.notes,
            **ctx.extra,
        },
        "assumptions": ctx.assumptions,
        "wall_s": round(wall_s, 3),
        "violations": len(viol),
    }
    if write_evidence:
        os.makedirs(EVIDENCE_DIR, exist_ok=True)
        with open(os.path.join(EVIDENCE_DIR, f"{ctx.prop}.json"), "w", encoding="utf-8") as fh:
            json.dump(ev, fh, indent=1, default=str)

    print(f"[{ctx.prop}] tier={ctx.tier} obligations={total} discharged={discharged} violated={len(viol)} "
          f"known={len(known_hits)} undecided={len(undec)} functions={len(ctx.functions_analysed)} "
          f"call_sites={ctx.call_sites} paths={ctx.paths} wall={wall_s:.2f}s digest={source_digest}")
    per_rule: dict[str, list[int]] = {}
    for o in ctx.obligations:
        c = per_rule.setdefault(o.rule, [0, 0])
        c[0] += 1
        c[1] += o.status == OK
    for r, (n, d) in per_rule.items():
        print(f"  rule {r}: {d}/{n} discharged")
    for w, f, m in ctx.floors:
        print(f"  floor {w}: found {f} (minimum {m})")
    for ob, k in known_hits:
        print(f"KNOWN-FINDING: property={ctx.prop} {ob.rule} @ {ob.construct} — {k.get('what', ob.detail)}")
    for (ob, _), p in zip(viol, replay_paths):
        print(f"  FINDING {ob.rule} at {ob.loc}: {ob.construct}\n    {ob.detail}")
        print(f"VIOLATION property={ctx.prop} replay={p}")
    if viol:
        return 1
    for ob in undec:
        print(f"ANALYSIS-ERROR property={ctx.prop} undecided {ob.rule} at {ob.loc}: {ob.construct} — {ob.detail}")
    for w, f, m in floor_fail:
        print(f"ANALYSIS-ERROR property={ctx.prop} floor missed: {w}: found {f} < {m}")
    if undec or floor_fail:
        return 2
    return 0
