"""Abstract interpretation of every aggregator's ``forward`` per constructor variant (C03/C05/C08/C10/C11/C16/C18)."""

from __future__ import annotations

import ast
from dataclasses import dataclass, field
from fractions import Fraction

from . import AnalysisError
from .interp import Interp, Result
from .poly import Poly
from .torchlib import FullOps
from .values import Const, FuncV, ListV, NONE, ObjV, TV, Unk

AGG_PKG = "torchjd.aggregation"


def registry(index) -> list:
    """Public aggregator classes: names imported by aggregation/__init__.py that subclass Aggregator."""
    m = index.modules.get(AGG_PKG)
    if m is None:
        raise AnalysisError("anchor vanished: package torchjd.aggregation")
    base = index.get_class("torchjd.aggregation.bases.Aggregator")
    out = []
    for name in m.imports:
        r = index.resolve_name(m, name)
        from .index import ClassInfo

        if isinstance(r, ClassInfo) and base in r.mro and r is not base:
            out.append(r)
    if not out:
        raise AnalysisError("aggregator registry is empty")
    return sorted(out, key=lambda c: c.name)


def _ann_kinds(ann) -> set[str]:
    if ann is None:
        return {"unknown"}
    txt = ast.unparse(ann)
    kinds = set()
    if "Tensor" in txt:
        kinds.add("tensor")
    if "float" in txt:
        kinds.add("float")
    if "int" in txt and "float" not in txt:
        kinds.add("int")
    if "None" in txt or "Optional" in txt:
        kinds.add("none")
    if "Callable" in txt:
        kinds.add("callable")
    if "Literal" in txt or "str" in txt:
        kinds.add("str")
    if "bool" in txt:
        kinds.add("bool")
    return kinds or {"unknown"}


def param_variants(cls, interp) -> list[dict]:
    """Abstract argument dictionaries for the constructor (one per combination of optional params)."""
    r = cls.lookup("__init__")
    if r is None:
        return [{}]
    fn = r[1].node
    params = fn.args.args[1:]
    defaults = [None] * (len(params) - len(fn.args.defaults)) + list(fn.args.defaults)
    variants: list[dict] = [{}]
    for p, d in zip(params, defaults):
        kinds = _ann_kinds(p.annotation)
        opts = []
        name = p.arg
        if "tensor" in kinds:
            opts.append(TV(kind="tensor", axes=("R",), dtype="Cfg", alias=True, origin=frozenset([name]), deg=Fraction(0), note="config"))
        if "float" in kinds:
            opts.append(TV(kind="pyfloat", poly=Poly.sym(name), origin=frozenset([name]), deg=Fraction(0)))
        if "int" in kinds:
            opts.append(TV(kind="pyint", poly=Poly.sym(name), origin=frozenset([name]), deg=Fraction(0)))
        if "callable" in kinds:
            if d is not None:
                opts.append("default")
            opts.append(TV(kind="tensor", note="user-callable", origin=frozenset([name])))
        if "str" in kinds:
            opts.append(Const(f"<{name}>"))
        if "bool" in kinds:
            opts.append(TV(kind="pybool", dtype="Bool", origin=frozenset([name])))
        if "none" in kinds:
            opts.append(NONE)
        if not opts:
            opts.append("default" if d is not None else Unk(f"constructor parameter {name}"))
        new = []
        for v in variants:
            for o in opts:
                nv = dict(v)
                if not (isinstance(o, str) and o == "default"):
                    nv[name] = o
                new.append(nv)
        variants = new
    return variants


def variant_label(v: dict) -> str:
    parts = []
    for k, x in v.items():
        if x == NONE:
            parts.append(f"{k}=None")
        elif isinstance(x, Const):
            continue
        elif isinstance(x, TV) and x.note == "user-callable":
            parts.append(f"{k}=<callable>")
        else:
            parts.append(f"{k}=<given>")
    return ", ".join(parts) or "defaults"


@dataclass
class ForwardRun:
    cls: object
    variant: dict
    label: str
    obj: object
    ctor_events: list
    results: list  # list[Result] of forward
    ctor_raises: list = field(default_factory=list)


def matrix_value() -> TV:
    return TV(kind="tensor", axes=("R", "C"), span=True, deg=Fraction(1), dtype="M", alias=True, origin=frozenset(["matrix"]))


class AggAnalysis:
    def __init__(self, index):
        self.index = index
        self.ops = FullOps()
        self.interp = Interp(index, self.ops)
        self.runs: list[ForwardRun] = []

    def construct(self, cls, variant: dict):
        """Returns (list of (obj, events, decisions)), list of raising paths."""
        from .values import ClassV

        objs, raises = [], []
        res = self.interp.run_paths(lambda: self.interp.instantiate(cls, [], dict(variant), cls.node, None))
        for r in res:
            if r.kind == "return":
                objs.append((r.value, r.events, r.trace.decisions))
            else:
                raises.append(r)
        return objs, raises

    def forward(self, obj, matrix=None):
        m = matrix if matrix is not None else matrix_value()
        self.ops.cvx_flags = []

        def thunk():
            self.ops.cvx_flags = []
            return self.interp.call_value(obj, [m], {}, obj.cls.node, None)

        return self.interp.run_paths(thunk)

    def analyse_class(self, cls) -> list[ForwardRun]:
        out = []
        for v in param_variants(cls, self.interp):
            objs, raises = self.construct(cls, v)
            for obj, evs, decs in objs:
                label = variant_label(v) + (f" [{'; '.join(decs)}]" if decs else "")
                res = self.forward(obj)
                out.append(ForwardRun(cls, v, label, obj, evs, res, raises))
            if not objs:
                out.append(ForwardRun(cls, v, variant_label(v), None, [], [], raises))
        self.runs.extend(out)
        return out


def describe(v) -> str:
    if isinstance(v, TV):
        return v.short()
    return repr(v)
