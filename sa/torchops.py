"""torch / numpy / cvxpy / qpsolvers transfer functions (part 1: core tensor algebra)."""

from __future__ import annotations

import ast
from dataclasses import replace
from fractions import Fraction

from .ops import F0, HALF, Ops, deg_add, deg_scale, deg_sub, deg_sum, tv_of
from .poly import Poly
from .values import (
    FALSE, NONE, TRUE, Z, AVal, BoundV, ClassV, Const, DictV, Env, ExtMethodV, ExtV, FuncV, LambdaV, ListV, MetaV, ModV,
    ObjV, PartialV, SetV, SuperV, TV, Unk, VmapV, const_to_tv, join, join_deg,
)

# element-wise unary functions: name -> (degree rule, zero-preserving)
#   degree rule: "same" | "half" | "double" | "zero-only" (needs degree 0) | "neg" | "sign" (→0)
UNARY_FUNCS = {
    "abs": ("same", True), "neg": ("same", True), "negative": ("same", True), "sqrt": ("half", True),
    "square": ("double", True), "exp": ("zero-only", False), "log": ("zero-only", False), "sign": ("sign", True),
    "sgn": ("sign", True), "relu": ("same", True), "tanh": ("zero-only", True), "sigmoid": ("zero-only", False),
    "reciprocal": ("neg", False), "rsqrt": ("neghalf", False), "isfinite": ("sign", False), "isnan": ("sign", True),
    "isinf": ("sign", True), "logical_not": ("sign", False), "floor": ("zero-only", True), "ceil": ("zero-only", True),
    "round": ("zero-only", True), "cos": ("zero-only", False), "sin": ("zero-only", True),
}
LINEAR_UNARY = {"neg", "negative"}

SYM_REDUCTIONS = {"sum", "mean", "norm", "max", "min", "amax", "amin", "prod", "all", "any", "std", "var", "logsumexp",
                  "nansum", "nanmean", "median", "count_nonzero"}
ARG_REDUCTIONS = {"argmin", "argmax"}
VIEW_METHODS = {"detach", "cpu", "cuda", "contiguous", "numpy", "squeeze", "unsqueeze", "view", "reshape", "flatten",
                "t", "transpose", "permute", "narrow", "expand", "to", "type", "double", "float", "diagonal", "ravel",
                "view_as", "reshape_as", "unflatten", "movedim", "swapaxes", "real"}
TORCH_NS = ("torch.", "torch.linalg.", "torch.nn.functional.", "numpy.", "numpy.linalg.")


class TorchOps(Ops):
    # ====================================================================== helpers
    def T(self, axes, like: TV | None = None, **kw) -> TV:
        base = dict(kind="tensor", axes=tuple(axes), dtype="M", deg=F0)
        if like is not None:
            base.update(kind=like.kind if not like.is_py else "tensor", p=like.p, q=like.q, s=like.s, z=like.z, deg=like.deg,
                        dtype=like.dtype, origin=like.origin, gen=like.gen, rng=like.rng)
        base.update(kw)
        return TV(**base)

    def axis_of(self, tv: TV, dim, node):
        """Resolves a ``dim`` argument to an axis position (or None)."""
        d = tv_of(dim) if dim is not None else None
        if d is None or d.poly is None or d.poly.const_value() is None:
            return None
        i = int(d.poly.const_value())
        n = len(tv.axes)
        if i < 0:
            i += n
        if 0 <= i < n:
            return i
        self.ev("type_error", node, why=f"dim {i} out of range for axes {tv.axes}")
        return None

    def const_int(self, v):
        t = tv_of(v) if v is not None else None
        if t is None or t.poly is None:
            return None
        c = t.poly.const_value()
        if c is None or c.denominator != 1:
            return None
        return int(c)

    def lose_axis_flags(self, tv: TV, tag: str, how: str, node, **overrides):
        """Flag consequences of collapsing/indexing an axis with tag ``tag`` in manner ``how``."""
        p, q, s, z = tv.p, tv.q, tv.s, tv.z
        if tag == "R":
            if how in ("const", "slice", "scan"):
                if p:
                    self.clear("p", f"{how} access along the row (objective) axis", node)
                p = False
        elif tag == "U":
            if how in ("const", "slice", "scan"):
                if p:
                    self.clear("p", f"{how} access along an axis whose order is unspecified (unsorted topk)", node)
                p = False
                self.ev("unordered_access", node)
        elif tag == "C":
            if how in ("const", "slice", "scan"):
                if q:
                    self.clear("q", f"{how} access along the column (parameter) axis", node)
                q = s = z = False
            elif how == "sum":
                if q:
                    self.clear("q", "sum over the column axis is not invariant under orthogonal maps", node)
                q = False
            elif how == "mean":
                q = False
                z = False
                self.clear("q", "mean over the column axis", node)
            elif how == "nonl2":
                q = False
                self.clear("q", "non-Euclidean reduction over the column axis", node)
            elif how == "ext":
                q = False
                z = False
                self.clear("q", "extremum over the column axis", node)
        return dict(p=p, q=q, s=s, z=z)

    # ====================================================================== matmul
    def matmul(self, a: TV, b: TV, node) -> TV:
        self.note_value_use(a, node)
        self.note_value_use(b, node)
        self.ev("op", node, op="matmul", left=a.short(), right=b.short(), left_origin=sorted(a.origin), right_origin=sorted(b.origin),
                left_raw=a.alias and a.axes in (("R", "C"), ("C", "R")) and a.origin == frozenset(["matrix"]),
                right_raw=b.alias and b.axes in (("R", "C"), ("C", "R")) and b.origin == frozenset(["matrix"]),
                left_axes=list(a.axes), right_axes=list(b.axes))
        if a.kind == "cvx" or b.kind == "cvx":
            kind = "cvx"
        elif {a.kind, b.kind} == {"ndarray", "tensor"}:
            self.ev("kind_mix", node, left=a.kind, right=b.kind, why="numpy array @ torch tensor raises TypeError")
            kind = "tensor"
        else:
            kind = "tensor" if "tensor" in (a.kind, b.kind) else "ndarray"
        if not a.axes or not b.axes:
            self.ev("type_error", node, why="matmul with a 0-d operand")
            return self.T((), kind=kind, p=False, q=False, s=False, z=False, deg=None)
        ta = a.axes[-1]
        bi = 0 if len(b.axes) == 1 else len(b.axes) - 2
        tb = b.axes[bi]
        axes = tuple(a.axes[:-1]) + tuple(x for i, x in enumerate(b.axes) if i != bi)
        p, q, s, z = a.p and b.p, a.q and b.q, a.s and b.s, a.z and b.z
        pair = {ta, tb}
        if ta == tb or "1" in pair:
            pass
        elif pair == {"R", "K"}:
            self.clear("p", "row axis contracted with a position-indexed axis", node)
            p = False
        elif pair == {"C", "K"}:
            self.clear("q", "column axis contracted with a position-indexed axis", node)
            q = s = z = False
        else:
            self.ev("type_error", node, why=f"matmul contracts axes {ta} and {tb}")
            p = q = s = z = False
        # span: the C axis of the result comes from one operand; the contraction partner has no C axis
        span = False
        if "C" in axes:
            a_c_left = "C" in a.axes[:-1]
            b_c_left = "C" in [x for i, x in enumerate(b.axes) if i != bi]
            if a_c_left and not b_c_left:
                span = a.span and "C" not in b.axes
            elif b_c_left and not a_c_left:
                span = b.span and "C" not in a.axes
        dtype = self.promote(a.dtype, b.dtype)
        if dtype == "Mixed":
            self.ev("dtype_mix", node, left=a.dtype, right=b.dtype)
        self.note_degree(deg_add(a.deg, b.deg), a, b, node)
        out = TV(kind=kind, axes=axes, p=p, q=q, s=s, z=z, span=span, deg=deg_add(a.deg, b.deg), dtype=dtype,
                 origin=a.origin | b.origin, gen=a.gen | b.gen, rng=a.rng or b.rng)
        raw_ = lambda t, ax: t.alias and tuple(t.axes) == ax and t.origin == frozenset(["matrix"])
        if raw_(a, ("R", "C")) and raw_(b, ("C", "R")):
            out = self.tag(out, "gramian", node)  # J @ J.T: what derives from it only knows the inner products of the rows
        return out

    # ====================================================================== indexing
    def index_axis(self, tv: TV, axis: int, idx, node, generic: bool) -> TV:
        """Removes ``axis`` by indexing it with ``idx`` (None + generic=True: generic element)."""
        tag = tv.axes[axis]
        axes = tv.axes[:axis] + tv.axes[axis + 1:]
        fl = dict(p=tv.p, q=tv.q, s=tv.s, z=tv.z)
        gen = tv.gen
        if generic:
            pass
        else:
            it = tv_of(idx) if idx is not None else None
            if it is not None and it.idx_of is not None and (it.idx_of == tag or tag in ("K",)):
                fl["p"] = fl["p"] and it.p
                gen = gen | it.gen
                if it.axes:
                    # gather with an index tensor: the axis is replaced by the index tensor's axes
                    axes = tv.axes[:axis] + it.axes + tv.axes[axis + 1:]
            elif it is not None and it.gen and tag == "R":
                gen = gen | it.gen
            elif tag in ("K", "1"):
                pass
            else:
                fl = self.lose_axis_flags(tv, tag, "const", node)
            if it is not None:
                for f in "qsz":
                    if not getattr(it, f):
                        fl[f] = False
        span = tv.span and tag != "C"
        return tv.but(axes=axes, gen=gen, span=span if "C" in axes else False, poly=tv.poly if not tv.is_py else None,
                      idx_of=tv.idx_of, size_of=None, **fl)

    def subscript(self, base, idx, node, env):
        if isinstance(base, ListV) and base.kind == "counter":
            return self.unk("lookup in a Counter", node)
        if isinstance(base, ListV):
            return self.list_subscript(base, idx, node)
        if isinstance(base, DictV):
            return self.dict_get(base, idx[1] if idx[0] == "index" else None, node)
        if isinstance(base, ObjV):
            r = base.cls.lookup("__getitem__")
            if r is not None:
                return self.interp.call_value(BoundV(FuncV(r[1], None), base), [idx[1]], {}, node, env)
            if base.payload is not None:
                return self.dict_get(base.payload, idx[1] if idx[0] == "index" else None, node)
        if isinstance(base, (ExtV, ClassV)):
            return base  # Generic[...] subscripts in annotations / class bases
        tv = tv_of(base)
        if tv is None:
            return self.unk(f"subscript of {type(base).__name__}", node)
        if tv.is_py:
            return self.unk("subscript of a python number", node)
        parts = list(idx[1]) if idx[0] == "tuple" else [idx]
        out = tv
        pos = 0
        for part in parts:
            if part[0] == "index" and isinstance(part[1], Const) and part[1].v is None:
                out = out.but(axes=out.axes[:pos] + ("1",) + out.axes[pos:])
                pos += 1
                continue
            if part[0] == "index" and isinstance(part[1], Const) and part[1].v is Ellipsis:
                pos = len(out.axes) - (len(parts) - parts.index(part) - 1)
                continue
            if pos >= len(out.axes):
                self.ev("type_error", node, why="too many indices")
                return out.but(p=False, q=False, s=False, z=False)
            if part[0] == "slice":
                out = self.slice_axis(out, pos, part, node)
                pos += 1
            else:
                before = len(out.axes)
                out = self.index_axis(out, pos, part[1], node, generic=False)
                pos += len(out.axes) - before + 1
        return out.but(alias=tv.alias)

    def slice_axis(self, tv: TV, axis: int, sl, node, tag_it=True) -> TV:
        _, lo, hi, step = sl
        if lo is None and hi is None and step is None:
            return tv
        tag = tv.axes[axis]
        fl = dict(p=tv.p, q=tv.q, s=tv.s, z=tv.z)
        if tag in ("R", "C", "U"):
            fl = self.lose_axis_flags(tv, tag, "slice", node)
        for b in (lo, hi):
            if isinstance(b, TV):
                for f in "pqsz":
                    if not getattr(b, f) and fl[f]:
                        fl[f] = False
                        self.clear(f, "slice bound is not invariant", node)
        new_tag = "K" if tag in ("R", "C") else tag
        axes = tv.axes[:axis] + (new_tag,) + tv.axes[axis + 1:]
        out = tv.but(axes=axes, span=tv.span and tag != "C", **fl)
        if not tag_it:
            return out
        return self.tag(out, "slice", node, axis=tag, axis_pos=axis, lo_poly=self.poly_of(lo), hi_poly=self.poly_of(hi),
                        lo_given=lo is not None, hi_given=hi is not None and not (isinstance(hi, Const) and hi.v == "len"),
                        step=repr(step), in_origin=sorted(tv.origin), loop_trip=self.loop_trip() if getattr(self, "open_loops", None) else None, in_loop=bool(getattr(self, "open_loops", None)))

    def list_subscript(self, base: ListV, idx, node):
        if idx[0] == "index":
            i = self.const_int(idx[1])
            if base.items is not None and i is not None and -len(base.items) <= i < len(base.items):
                return base.items[i]
            if base.items is not None and i is not None and base.over == "shape":
                # t.shape[i] with i beyond the number of dimensions (a 0-d tensor's shape[0]): IndexError
                from .interp import AbsRaise

                self.ev("raise_site", node, exc="IndexError", what=f"shape of a {len(base.items)}-d tensor indexed at {i}")
                raise AbsRaise("IndexError", node, self.interp.where(node)[1])
            if base.items is not None:
                e = None
                for x in base.items:
                    e = x if e is None else join(e, x)
                return e if e is not None else self.unk("index into empty list", node)
            return base.elem if base.elem is not None else self.unk("element of unknown list", node)
        if idx[0] == "slice":
            _, lo, hi, step = idx
            ilo, ihi, ist = (self.const_int(x) if x is not None else None for x in (lo, hi, step))
            if base.items is not None and (lo is None or ilo is not None) and (hi is None or ihi is not None) and (step is None or ist is not None):
                return replace(base, items=tuple(base.items[slice(ilo, ihi, ist)]))
            order = base.order
            if ist is not None and ist < 0 and order is not None:
                order = (order[0], "reversed" if order[1] == "same" else "mixed")
            elif order is not None and lo is None and ihi == -1 and ist is None:
                order = (order[0], order[1] + "[:-1]")
            elif order is not None and (lo is not None or hi is not None):
                order = (order[0], order[1] + "+sliced")
            e = base.elem if base.items is None else self.set_elem(SetV(items=base.items))
            return ListV(items=None, elem=e, kind=base.kind, over=None if (lo or hi) else base.over, order=order)
        return self.unk("list subscript", node)

    def dict_get(self, d, key, node):
        if isinstance(d, DictV):
            if d.items is not None:
                for k, v in d.items:
                    if k == key or k is key:
                        return v
                vals = [v for _, v in d.items]
                if not vals:
                    # d[key] on a dictionary known to be empty raises KeyError
                    from .interp import AbsRaise

                    self.ev("raise_site", node, exc="KeyError", what="lookup in an empty dictionary")
                    raise AbsRaise("KeyError", node, self.interp.where(node)[1] if hasattr(self.interp, "where") else "")
                out = vals[0]
                for v in vals[1:]:
                    out = join(out, v)
                return out
            return d.val if d.val is not None else self.unk("value of unknown dict", node)
        return self.unk("dict lookup", node)

    def tensor_store(self, tv: TV, idx, v, st, aug):
        self.ev("inplace", st, alias=tv.alias, target=st.targets[0].value.id if isinstance(st, ast.Assign) and isinstance(st.targets[0], ast.Subscript) and isinstance(st.targets[0].value, ast.Name) else "subscript")
        tvv = tv_of(v)
        if tvv is None:
            return tv.but(p=False, q=False, s=False, z=False, deg=None)
        parts = list(idx[1]) if idx[0] == "tuple" else [idx]
        if not parts and tv.note == "uninitialised":
            return tvv.but(kind=tv.kind, note="")  # buf[()] = v: the whole (uninitialised) buffer receives v
        if len(parts) == 2 and all(pt[0] == "index" for pt in parts) and tuple(tv.axes) == ("R", "R") and not aug and tvv.note.startswith("pdist:"):
            r_ = self._pair_scatter(tv, tv_of(parts[0][1]), tv_of(parts[1][1]), tvv, st)
            if r_ is not None:
                return r_
        p, q, s, z = tv.p and tvv.p, tv.q and tvv.q, tv.s and tvv.s, tv.z and tvv.z
        gen = tv.gen | tvv.gen
        rowdist = None
        if tv.dtype != tvv.dtype and not tvv.is_py and tv.dtype not in ("Mixed",) and tvv.dtype not in ("Mixed",):
            # a store converts the value to the dtype of the buffer it lands in
            self.ev("store_cast", st, buffer_dtype=tv.dtype, value_dtype=tvv.dtype, buffer_origin=sorted(tv.origin), buffer_note=tv.note)
        for pos, part in enumerate(parts):
            if pos >= len(tv.axes):
                break
            tag = tv.axes[pos]
            if part[0] == "slice":
                if part[1] is None and part[2] is None:
                    continue
                if tag == "R":
                    p = False
                    self.clear("p", "slice store along the row axis", st)
                elif tag == "C":
                    q = s = z = False
                continue
            it = tv_of(part[1])
            if it is not None and it.idx_of == tag == "R" and it.gen and pos == 0 and it.is_py and tvv.gen <= it.gen and not aug and self._persists_over(st, it.gen):
                # buf[i] = f(row i) for the generic index i of a loop over ALL rows: once the loop is over, row i of buf is f(row i)
                # for every i — a row-wise map, which no longer depends on the position the loop happens to be at
                p = p and it.p
                gen = (gen | it.gen) - it.gen
                if tvv.note.startswith("rowdist:") and it.note == "enumerate-index" and it.gen == tvv.gen and len(parts) == 1 and tuple(tv.axes) == ("R", "R") \
                        and not (tv.gen - it.gen):
                    rowdist = tvv.note.split(":", 1)[1]  # buf[i] = ||matrix - row_i|| for (i, row_i) in enumerate(matrix): buf is the matrix of pairwise distances
            elif it is not None and (it.idx_of == tag or (it.gen and tag == "R")):
                p = p and it.p
                gen = gen | it.gen
            elif tag == "R":
                p = False
                self.clear("p", "store at a constant position of the row axis", st)
            elif tag == "C":
                q = s = z = False
        out = tv.but(p=p, q=q, s=s, z=z, gen=gen, deg=tvv.deg if tv.note == "uninitialised" else join_deg(tv.deg, tvv.deg), poly=None, rng=tv.rng or tvv.rng,
                     origin=tv.origin | tvv.origin, span=(tv.span or tv.note == "uninitialised") and tvv.span)
        if rowdist is not None:
            # the same matrix torch.cdist(matrix, matrix) computes, from exact differences; the norm is part of the distance, not a reduction of it
            out = out.but(origin=frozenset(o for o in out.origin if not o.startswith("reduce#")), note="")
            return self.tag(out, "cdist", st, p=rowdist, compute_mode="donot_use_mm_for_euclid_dist", both_raw=True, eps=None, spelled="row by row")
        if len(parts) == 1 and parts[0][0] == "index":
            it = tv_of(parts[0][1])
            if it is not None and tv.axes and ((it.kind == "tensor" and it.axes) or (it.is_py and it.idx_of is not None and it.idx_of == tv.axes[0])):
                # x[indices] = v: a scatter of v at the given positions (used as an alternative spelling of one_hot(...).sum(0))
                if tv.poly is not None and tv.poly.const_value() == 0 and tvv.poly is not None and not aug and it.is_py and not tvv.axes:
                    # zeros with ONE entry set, at a generic position: like diag(), `poly` is the value of the structurally non-zero entries
                    out = out.but(poly=tvv.poly)
                out = self.tag(out.but(origin=out.origin | it.origin), "index_put", st, axis=tv.axes[0], base_poly=tv.poly, base_axes=list(tv.axes), value_poly=tvv.poly,
                               size_poly=self.size_tv(tv, 0).poly if tv.axes else None, in_idx_of=it.idx_of, in_origin=sorted(it.origin), aug=bool(aug))
        return out

    def _pair_scatter(self, tv, i0, i1, tvv, st):
        """`D[rows, cols] = pdist(matrix)` with (rows, cols) = triu_indices(m, m, 1): pdist lists the pairs in exactly that order, so the upper triangle of D
        receives the distances; the same store with the two index vectors swapped fills the lower triangle. Both halves on a zero matrix: what
        torch.cdist(matrix, matrix) computes from exact differences. Any other enumeration of the pairs (tril_indices) puts distances on other pairs."""
        if i0 is None or i1 is None or ":" not in i0.note or ":" not in i1.note:
            return None
        (k0, w0), (k1, w1) = i0.note.split(":", 1), i1.note.split(":", 1)
        if k0 != k1 or {w0, w1} != {"rows", "cols"} or not k0.startswith("tri"):
            return None
        pn = tvv.note.split(":", 1)[1]
        if k0 != "triu1":
            self.ev("pdist_scatter_mismatch", st, indices=k0, why="pdist lists the pairs (i < j) like the upper triangle read row by row: (0,1), (0,2), ..., (1,2), ...")
            return None
        half = "upper" if (w0, w1) == ("rows", "cols") else "lower"
        other = "lower" if half == "upper" else "upper"
        if tv.poly is not None and tv.poly.const_value() == 0 and not tv.note:
            return tv.but(p=False, q=tv.q and tvv.q, s=tv.s and tvv.s, z=tv.z and tvv.z, deg=tvv.deg, poly=None, origin=tv.origin | tvv.origin, note=f"pdhalf:{half}:{pn}")
        if tv.note == f"pdhalf:{other}:{pn}":
            out = tv.but(p=True, q=tv.q and tvv.q, s=tv.s and tvv.s, z=tv.z and tvv.z, deg=tvv.deg, poly=None, origin=tv.origin | tvv.origin, note="", alias=False)
            return self.tag(out, "cdist", st, p=pn, compute_mode="donot_use_mm_for_euclid_dist", both_raw=True, eps=None, spelled="pdist scattered to both triangles")
        return None

    def _persists_over(self, st, lids) -> bool:
        """The buffer written by the subscript store `st` was bound before the loops `lids` started and is not rebound inside them
        (so the stores of all iterations land in one buffer)."""
        tgt = st.targets[0] if isinstance(st, ast.Assign) and len(st.targets) == 1 else getattr(st, "target", None)
        if not (isinstance(tgt, ast.Subscript) and isinstance(tgt.value, ast.Name)):
            return False
        name = tgt.value.id
        for lid in lids:
            loop = getattr(self, "loop_stmts", {}).get(lid)
            if loop is None:
                return False
            for n in ast.walk(loop):
                if isinstance(n, ast.Name) and n.id == name and isinstance(n.ctx, ast.Store):
                    return False
        return True

    # ====================================================================== attributes of values
    def value_attr(self, base, attr, node, env):
        if isinstance(base, ListV) and base.kind == "tuple" and base.items is not None and len(base.items) == 2 and attr in ("values", "indices"):
            # named result of sort / topk / max(dim) / min(dim) / kthvalue / median(dim)
            return base.items[0 if attr == "values" else 1]
        if isinstance(base, ListV) and base.kind == "tuple" and base.items is not None and len(base.items) == 3 and attr in ("U", "S", "V", "Vh"):
            return base.items[{"U": 0, "S": 1, "V": 2, "Vh": 2}[attr]]
        if isinstance(base, TV) and base.note.startswith("finfo"):
            return TV(kind="pyfloat", dtype="Py", deg=F0, note="finfo." + attr)
        tv = tv_of(base)
        if tv is not None and not isinstance(base, Const):
            if attr in ("T", "mT", "H"):
                return tv.but(axes=tuple(reversed(tv.axes)))
            if attr == "shape":
                return ListV(items=tuple(self.size_tv(tv, i) for i in range(len(tv.axes))), kind="tuple", over="shape")
            if attr == "dtype":
                return MetaV("dtype", tv.dtype, origin=frozenset(o + "#meta" if not o.endswith("#meta") else o for o in tv.origin))
            if attr == "device":
                return MetaV("device", "", origin=frozenset())
            if attr in ("ndim",):
                return TV(kind="pyint", poly=Poly.const(len(tv.axes)))
            if attr == "value" and tv.kind == "cvx":
                fl = self.cvx_solution_flags(node)
                return TV(kind="ndarray", axes=tv.axes, dtype="F64", **fl)
            if attr in ("grad", "grad_fn", "requires_grad", "is_leaf", "retains_grad"):
                return TV(kind="tensor", axes=tv.axes, note=attr) if attr == "grad" else TV(kind="pybool", dtype="Bool")
            if attr == "real":
                return tv
            return ExtMethodV(tv, attr)
        if isinstance(base, TV) and base.note.startswith("finfo") and attr in ("eps", "tiny", "max", "min", "smallest_normal", "resolution"):
            return TV(kind="pyfloat", dtype="Py", deg=F0, note="finfo." + attr)
        if isinstance(base, MetaV):
            return ExtMethodV(base, attr)
        return ExtMethodV(base, attr)

    def size_tv(self, tv: TV, i: int) -> TV:
        tag = tv.axes[i]
        sym = {"R": "m", "C": "n", "R2": "m2"}.get(tag)
        poly = Poly.sym(sym) if sym else (Poly.const(1) if tag == "1" else None)
        return TV(kind="pyint", dtype="Py", poly=poly, size_of=tag if tag in ("R", "C", "R2") else None, deg=F0,
                  z=tag != "C", origin=frozenset(o if o.endswith("#meta") else o + "#meta" for o in tv.origin))

    def obj_attr(self, obj, attr, node, env):
        if obj.payload is not None:
            return ExtMethodV(obj, attr)
        if attr in ("training",):
            return TV(kind="pybool", dtype="Bool")
        return ExtMethodV(obj, attr)

    def ext_attr(self, base: ExtV, attr, node, env):
        name = base.name + "." + attr
        if name in ("numpy.float64", "numpy.float32", "torch.float32", "torch.float64", "torch.float", "torch.double",
                    "torch.int64", "torch.long", "torch.bool", "numpy.int64"):
            return MetaV("dtype", self.ext_dtype(name))
        if name in ("math.pi", "numpy.pi", "torch.pi", "math.e", "numpy.inf", "math.inf", "torch.inf"):
            return TV(kind="pyfloat", dtype="Py")
        return ExtV(name)

    # ====================================================================== unpack for tensors
    def unpack(self, v, n, node):
        return super().unpack(v, n, node)
