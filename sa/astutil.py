"""Small AST helpers: def/use sets, loops, symbolic polynomial of an arithmetic expression."""

from __future__ import annotations

import ast

from .poly import Poly
from .report import norm_text


def names_read(node) -> set[str]:
    return {n.id for n in ast.walk(node) if isinstance(n, ast.Name) and isinstance(n.ctx, ast.Load)}


def base_name(t):
    while isinstance(t, (ast.Subscript, ast.Attribute)):
        t = t.value
    return t.id if isinstance(t, ast.Name) else None


def mutated_names(stmts) -> dict[str, list]:
    """Names bound or mutated by the statements (recursively), with the statements doing it."""
    out: dict[str, list] = {}
    for st in stmts:
        for n in ast.walk(st):
            tg = []
            if isinstance(n, ast.Assign):
                tg = n.targets
            elif isinstance(n, (ast.AugAssign, ast.AnnAssign)):
                tg = [n.target]
            elif isinstance(n, ast.For):
                tg = [n.target]
            elif isinstance(n, ast.Call) and isinstance(n.func, ast.Attribute) and n.func.attr in ("append", "add", "extend", "update", "insert") or \
                    (isinstance(n, ast.Call) and isinstance(n.func, ast.Attribute) and n.func.attr.endswith("_") and not n.func.attr.startswith("_")):
                b = base_name(n.func.value)
                if b:
                    out.setdefault(b, []).append(n)
                continue
            for t in tg:
                for e in (t.elts if isinstance(t, (ast.Tuple, ast.List)) else [t]):
                    b = base_name(e)
                    if b:
                        out.setdefault(b, []).append(n)
    return out


def inplace_mutated_names(stmts) -> set[str]:
    """Names whose *object* is updated in place or self-referentially (loop-carried state), not freshly rebound."""
    out = set()
    for st in stmts:
        for n in ast.walk(st):
            if isinstance(n, ast.AugAssign):
                b = base_name(n.target)
                if b:
                    out.add(b)
            elif isinstance(n, ast.Assign):
                for t in n.targets:
                    if isinstance(t, ast.Subscript):
                        b = base_name(t)
                        if b:
                            out.add(b)
                    elif isinstance(t, ast.Name) and t.id in names_read(n.value):
                        out.add(t.id)
            elif isinstance(n, ast.Call) and isinstance(n.func, ast.Attribute) and (n.func.attr in ("append", "add", "extend", "update", "insert") or
                                                                                    (n.func.attr.endswith("_") and not n.func.attr.startswith("_"))):
                b = base_name(n.func.value)
                if b:
                    out.add(b)
    return out


def defs_in(stmts, name: str) -> list:
    """Plain assignments ``name = expr`` inside the statements (recursively)."""
    out = []
    for st in stmts:
        for n in ast.walk(st):
            if isinstance(n, ast.Assign) and any(isinstance(t, ast.Name) and t.id == name for t in n.targets):
                out.append(n)
    return out


def backward_reads(stmts, expr, depth=6) -> set[str]:
    """Names the expression depends on through plain assignments inside ``stmts`` (transitively)."""
    seen = set()
    work = list(names_read(expr))
    while work and depth:
        nm = work.pop()
        if nm in seen:
            continue
        seen.add(nm)
        for d in defs_in(stmts, nm):
            work.extend(names_read(d.value))
    return seen


def loops(fn_node) -> list:
    return [n for n in ast.walk(fn_node) if isinstance(n, (ast.For, ast.While))]


def enclosing(fn_node, target) -> list:
    """Chain of statement ancestors of ``target`` inside the function (outermost first)."""
    path = []

    def go(n, acc):
        if n is target:
            path.extend(acc)
            return True
        for ch in ast.iter_child_nodes(n):
            if go(ch, acc + [n]):
                return True
        return False

    go(fn_node, [])
    return path


def expr_poly(e, atoms: dict | None = None) -> Poly | None:
    """Polynomial of an arithmetic expression; non-arithmetic sub-expressions become symbols (normalised text)."""
    if isinstance(e, ast.Constant) and isinstance(e.value, (int, float)) and not isinstance(e.value, bool):
        return Poly.const(e.value)
    if isinstance(e, ast.BinOp):
        a, b = expr_poly(e.left, atoms), expr_poly(e.right, atoms)
        if a is None or b is None:
            return None
        if isinstance(e.op, ast.Add):
            return a + b
        if isinstance(e.op, ast.Sub):
            return a - b
        if isinstance(e.op, ast.Mult):
            return a * b
        if isinstance(e.op, ast.Div):
            inv = b.inverse()
            return a * inv if inv is not None else Poly.sym(sym_name(e, atoms))
        return Poly.sym(sym_name(e, atoms))
    if isinstance(e, ast.UnaryOp) and isinstance(e.op, ast.USub):
        a = expr_poly(e.operand, atoms)
        return -a if a is not None else None
    if isinstance(e, ast.UnaryOp) and isinstance(e.op, ast.UAdd):
        return expr_poly(e.operand, atoms)
    return Poly.sym(sym_name(e, atoms))


def sym_name(e, atoms) -> str:
    t = norm_text(e)
    if atoms is not None:
        atoms[t] = e
    return t


def inline_locals(expr, fn_node, depth: int = 4, keep: set | None = None):
    """Copy of `expr` in which every local that is assigned exactly once in `fn_node` by a plain `name = <expr>` (and is
    not a loop/with/comprehension target, parameter or augmented-assigned name) is replaced by its defining expression,
    recursively. `keep` names are left alone. Lets structural rules read `a = x > y; m = a * b` like `m = (x > y) * b`."""
    import copy

    keep = set(keep or ())
    assigned: dict[str, list] = {}
    blocked = {a.arg for a in ast.walk(fn_node) if isinstance(a, ast.arg)}
    for n in ast.walk(fn_node):
        if isinstance(n, ast.Assign):
            for t in n.targets:
                if isinstance(t, ast.Name):
                    assigned.setdefault(t.id, []).append(n.value)
                else:
                    blocked |= {x.id for x in ast.walk(t) if isinstance(x, ast.Name) and isinstance(x.ctx, ast.Store)}
        elif isinstance(n, (ast.AugAssign, ast.AnnAssign)) and isinstance(n.target, ast.Name):
            blocked.add(n.target.id)
        elif isinstance(n, (ast.For, ast.comprehension)):
            blocked |= {x.id for x in ast.walk(n.target) if isinstance(x, ast.Name)}
        elif isinstance(n, ast.withitem) and n.optional_vars is not None:
            blocked |= {x.id for x in ast.walk(n.optional_vars) if isinstance(x, ast.Name)}
        elif isinstance(n, ast.NamedExpr):
            blocked.add(n.target.id)
    single = {k: v[0] for k, v in assigned.items() if len(v) == 1 and k not in blocked and k not in keep}

    class Sub(ast.NodeTransformer):
        def __init__(self, d):
            self.d = d

        def visit_Name(self, node):
            if isinstance(node.ctx, ast.Load) and node.id in single and self.d > 0:
                return Sub(self.d - 1).visit(copy.deepcopy(single[node.id]))
            return node

    return Sub(depth).visit(copy.deepcopy(expr))


# ------------------------------------------------------------------------------------------ match statements as if-chains
_MATCH_N = [0]


def desugar_match(st: "ast.Match"):
    """`match S: case P1 [if g1]: B1 ...` as `[t = S; if <P1 matches t> [and g1]: <bind>; B1  elif ...]`. Patterns supported: values,
    singletons, wildcards and captures, `as`, or-patterns, fixed-length sequences, class patterns with keyword attributes.
    Returns a list of statements, or None when a pattern is outside this subset. The same (cached) desugaring is used by the
    interpreter and by the CFG builder, so both see the same nodes."""
    cached = getattr(st, "_desugared", None)
    if cached is not None:
        return cached or None
    _MATCH_N[0] += 1
    tmp = f"__match{_MATCH_N[0]}"

    def load(n):
        return ast.Name(id=n, ctx=ast.Load())

    def pat(p, subj):
        """(test expr | None for 'always', [binding statements]) or None when unsupported."""
        if isinstance(p, ast.MatchValue):
            return ast.Compare(left=subj, ops=[ast.Eq()], comparators=[p.value]), []
        if isinstance(p, ast.MatchSingleton):
            return ast.Compare(left=subj, ops=[ast.Is()], comparators=[ast.Constant(value=p.value)]), []
        if isinstance(p, ast.MatchAs):
            inner = (None, []) if p.pattern is None else pat(p.pattern, subj)
            if inner is None:
                return None
            binds = list(inner[1])
            if p.name is not None:
                binds.append(ast.Assign(targets=[ast.Name(id=p.name, ctx=ast.Store())], value=subj))
            return inner[0], binds
        if isinstance(p, ast.MatchOr):
            parts = [pat(q, subj) for q in p.patterns]
            if any(x is None or x[1] for x in parts):
                return None
            if any(x[0] is None for x in parts):
                return None, []
            return ast.BoolOp(op=ast.Or(), values=[x[0] for x in parts]), []
        if isinstance(p, ast.MatchSequence):
            if any(isinstance(q, ast.MatchStar) for q in p.patterns):
                return None
            if isinstance(subj, ast.Tuple) and len(subj.elts) == len(p.patterns):
                subs = list(subj.elts)
                tests = []
            else:
                subs = [ast.Subscript(value=subj, slice=ast.Constant(value=i), ctx=ast.Load()) for i in range(len(p.patterns))]
                tests = [ast.Compare(left=ast.Call(func=load("len"), args=[subj], keywords=[]), ops=[ast.Eq()], comparators=[ast.Constant(value=len(p.patterns))])]
            binds = []
            for q, sub in zip(p.patterns, subs):
                r = pat(q, sub)
                if r is None:
                    return None
                if r[0] is not None:
                    tests.append(r[0])
                binds += r[1]
            return (None if not tests else (tests[0] if len(tests) == 1 else ast.BoolOp(op=ast.And(), values=tests))), binds
        if isinstance(p, ast.MatchClass):
            if p.patterns:
                return None
            tests = [] if (isinstance(p.cls, ast.Name) and p.cls.id == "object") else [ast.Call(func=load("isinstance"), args=[subj, p.cls], keywords=[])]
            binds = []
            for attr, q in zip(p.kwd_attrs, p.kwd_patterns):
                tests.append(ast.Call(func=load("hasattr"), args=[subj, ast.Constant(value=attr)], keywords=[]))
                r = pat(q, ast.Attribute(value=subj, attr=attr, ctx=ast.Load()))
                if r is None:
                    return None
                if r[0] is not None:
                    tests.append(r[0])
                binds += r[1]
            return (None if not tests else (tests[0] if len(tests) == 1 else ast.BoolOp(op=ast.And(), values=tests))), binds
        return None

    if isinstance(st.subject, ast.Tuple):
        prelude, subj = [], st.subject  # `match a, b:` — the elements are read where the patterns need them
        simple = all(isinstance(e, (ast.Name, ast.Constant, ast.Attribute)) or (isinstance(e, ast.Call) and isinstance(e.func, ast.Name) and e.func.id == "len") for e in subj.elts)
        if not simple:
            names = []
            for i, e in enumerate(subj.elts):
                nm = f"{tmp}_{i}"
                prelude.append(ast.Assign(targets=[ast.Name(id=nm, ctx=ast.Store())], value=e))
                names.append(load(nm))
            subj = ast.Tuple(elts=names, ctx=ast.Load())
    elif isinstance(st.subject, ast.Name):
        prelude, subj = [], st.subject
    else:
        prelude, subj = [ast.Assign(targets=[ast.Name(id=tmp, ctx=ast.Store())], value=st.subject)], load(tmp)
    chain = None
    for case in reversed(st.cases):
        r = pat(case.pattern, subj)
        if r is None:
            st._desugared = []
            return None
        test, binds = r
        if case.guard is not None:
            if binds:
                st._desugared = []
                return None  # a guard reading captured names needs the bindings first: not modelled
            test = case.guard if test is None else ast.BoolOp(op=ast.And(), values=[test, case.guard])
        body = binds + list(case.body)
        if test is None:
            chain = body  # irrefutable: everything below is unreachable
        else:
            chain = [ast.If(test=test, body=body, orelse=chain or [])]
    out = prelude + (chain or [])
    for x in out:
        for n in ast.walk(x):
            if not hasattr(n, "lineno"):
                ast.copy_location(n, st)
        ast.fix_missing_locations(x)
    st._desugared = out
    return out
