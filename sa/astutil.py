"""Small AST helpers: def/use sets, loops, symbolic polynomial of an arithmetic expression."""

from __future__ import annotations

import ast

from .poly import Poly
from .report import norm_text


def names_read(node) -> set[str]:
    return {n.id for n in ast.walk(node) if isinstance(n, ast.Name) and isinstance(n.ctx, ast.Load)}


def base_name(t):
    while isinstance(t, (ast.Subscript, ast.Attribute)):
        t = t.value
    return t.id if isinstance(t, ast.Name) else None


def mutated_names(stmts) -> dict[str, list]:
    """Names bound or mutated by the statements (recursively), with the statements doing it."""
    out: dict[str, list] = {}
    for st in stmts:
        for n in ast.walk(st):
            tg = []
            if isinstance(n, ast.Assign):
                tg = n.targets
            elif isinstance(n, (ast.AugAssign, ast.AnnAssign)):
                tg = [n.target]
            elif isinstance(n, ast.For):
                tg = [n.target]
            elif isinstance(n, ast.Call) and isinstance(n.func, ast.Attribute) and n.func.attr in ("append", "add", "extend", "update", "insert") or \
                    (isinstance(n, ast.Call) and isinstance(n.func, ast.Attribute) and n.func.attr.endswith("_") and not n.func.attr.startswith("_")):
                b = base_name(n.func.value)
                if b:
                    out.setdefault(b, []).append(n)
                continue
            for t in tg:
                for e in (t.elts if isinstance(t, (ast.Tuple, ast.List)) else [t]):
                    b = base_name(e)
                    if b:
                        out.setdefault(b, []).append(n)
    return out


def inplace_mutated_names(stmts) -> set[str]:
    """Names whose *object* is updated in place or self-referentially (loop-carried state), not freshly rebound."""
    out = set()
    for st in stmts:
        for n in ast.walk(st):
            if isinstance(n, ast.AugAssign):
                b = base_name(n.target)
                if b:
                    out.add(b)
            elif isinstance(n, ast.Assign):
                for t in n.targets:
                    if isinstance(t, ast.Subscript):
                        b = base_name(t)
                        if b:
                            out.add(b)
                    elif isinstance(t, ast.Name) and t.id in names_read(n.value):
                        out.add(t.id)
            elif isinstance(n, ast.Call) and isinstance(n.func, ast.Attribute) and (n.func.attr in ("append", "add", "extend", "update", "insert") or
                                                                                    (n.func.attr.endswith("_") and not n.func.attr.startswith("_"))):
                b = base_name(n.func.value)
                if b:
                    out.add(b)
    return out


def defs_in(stmts, name: str) -> list:
    """Plain assignments ``name = expr`` inside the statements (recursively)."""
    out = []
    for st in stmts:
        for n in ast.walk(st):
            if isinstance(n, ast.Assign) and any(isinstance(t, ast.Name) and t.id == name for t in n.targets):
                out.append(n)
    return out


def backward_reads(stmts, expr, depth=6) -> set[str]:
    """Names the expression depends on through plain assignments inside ``stmts`` (transitively)."""
    seen = set()
    work = list(names_read(expr))
    while work and depth:
        nm = work.pop()
        if nm in seen:
            continue
        seen.add(nm)
        for d in defs_in(stmts, nm):
            work.extend(names_read(d.value))
    return seen


def loops(fn_node) -> list:
    return [n for n in ast.walk(fn_node) if isinstance(n, (ast.For, ast.While))]


def enclosing(fn_node, target) -> list:
    """Chain of statement ancestors of ``target`` inside the function (outermost first)."""
    path = []

    def go(n, acc):
        if n is target:
            path.extend(acc)
            return True
        for ch in ast.iter_child_nodes(n):
            if go(ch, acc + [n]):
                return True
        return False

    go(fn_node, [])
    return path


def expr_poly(e, atoms: dict | None = None) -> Poly | None:
    """Polynomial of an arithmetic expression; non-arithmetic sub-expressions become symbols (normalised text)."""
    if isinstance(e, ast.Constant) and isinstance(e.value, (int, float)) and not isinstance(e.value, bool):
        return Poly.const(e.value)
    if isinstance(e, ast.BinOp):
        a, b = expr_poly(e.left, atoms), expr_poly(e.right, atoms)
        if a is None or b is None:
            return None
        if isinstance(e.op, ast.Add):
            return a + b
        if isinstance(e.op, ast.Sub):
            return a - b
        if isinstance(e.op, ast.Mult):
            return a * b
        if isinstance(e.op, ast.Div):
            inv = b.inverse()
            return a * inv if inv is not None else Poly.sym(sym_name(e, atoms))
        return Poly.sym(sym_name(e, atoms))
    if isinstance(e, ast.UnaryOp) and isinstance(e.op, ast.USub):
        a = expr_poly(e.operand, atoms)
        return -a if a is not None else None
    if isinstance(e, ast.UnaryOp) and isinstance(e.op, ast.UAdd):
        return expr_poly(e.operand, atoms)
    return Poly.sym(sym_name(e, atoms))


def sym_name(e, atoms) -> str:
    t = norm_text(e)
    if atoms is not None:
        atoms[t] = e
    return t


def inline_locals(expr, fn_node, depth: int = 4, keep: set | None = None):
    """Copy of `expr` in which every local that is assigned exactly once in `fn_node` by a plain `name = <expr>` (and is
    not a loop/with/comprehension target, parameter or augmented-assigned name) is replaced by its defining expression,
    recursively. `keep` names are left alone. Lets structural rules read `a = x > y; m = a * b` like `m = (x > y) * b`."""
    import copy

    keep = set(keep or ())
    assigned: dict[str, list] = {}
    blocked = {a.arg for a in ast.walk(fn_node) if isinstance(a, ast.arg)}
    for n in ast.walk(fn_node):
        if isinstance(n, ast.Assign):
            for t in n.targets:
                if isinstance(t, ast.Name):
                    assigned.setdefault(t.id, []).append(n.value)
                else:
                    blocked |= {x.id for x in ast.walk(t) if isinstance(x, ast.Name) and isinstance(x.ctx, ast.Store)}
        elif isinstance(n, (ast.AugAssign, ast.AnnAssign)) and isinstance(n.target, ast.Name):
            blocked.add(n.target.id)
        elif isinstance(n, (ast.For, ast.comprehension)):
            blocked |= {x.id for x in ast.walk(n.target) if isinstance(x, ast.Name)}
        elif isinstance(n, ast.withitem) and n.optional_vars is not None:
            blocked |= {x.id for x in ast.walk(n.optional_vars) if isinstance(x, ast.Name)}
        elif isinstance(n, ast.NamedExpr):
            blocked.add(n.target.id)
    single = {k: v[0] for k, v in assigned.items() if len(v) == 1 and k not in blocked and k not in keep}

    class Sub(ast.NodeTransformer):
        def __init__(self, d):
            self.d = d

        def visit_Name(self, node):
            if isinstance(node.ctx, ast.Load) and node.id in single and self.d > 0:
                return Sub(self.d - 1).visit(copy.deepcopy(single[node.id]))
            return node

    return Sub(depth).visit(copy.deepcopy(expr))
