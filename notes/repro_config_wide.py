import torch
from torchjd.aggregation import ConFIG, IMTLG, AlignedMTL
torch.manual_seed(0)
# 3 rows, well separated singular values of the unit-row matrix (ratio ~0.15): rank is unambiguous
J = torch.tensor([[1.0, 0.0, 0.0, 0.0],[0.97, 0.2431, 0.0, 0.0],[0.95, 0.1, 0.2958, 0.0]])
u = J / J.norm(dim=1, keepdim=True)
print("singular values of unit rows:", torch.linalg.svdvals(u))
for n_extra in (0, 10, 10**4, 10**6, 4*10**6):
    Jw = torch.cat([J, torch.zeros(3, n_extra)], dim=1)
    out = ConFIG()(Jw)[:4]
    print(n_extra, out.tolist())
