"""Throw-away reproduction of the four defects (NOT part of the static machinery; it runs torchjd).
Run with /venv/bin/python /verif/notes/repro_defects.py ; prints DEFECT/OK per finding."""
import torch
from torchjd import backward, mtl_backward
from torchjd.aggregation import Mean, NashMTL, ConFIG, IMTLG

def f1():
    a = torch.tensor([1., 2.], requires_grad=True)
    b = torch.tensor([3., 4.], requires_grad=True)
    nl = b * 2  # non-leaf
    y = (a * nl).sum()
    y2 = (a + nl).sum()
    try:
        backward([y, y2], Mean(), inputs=[a, nl], retain_graph=True)
    except ValueError:
        pass
    r1 = a.grad is None
    p0 = torch.tensor([1., 2.], requires_grad=True)
    p1 = torch.tensor([1.], requires_grad=True); p2 = torch.tensor([2.], requires_grad=True)
    nlp = p0 * 1.0
    feat = nlp * 3
    l1 = (feat * p1).sum(); l2 = (feat * p2).sum()
    try:
        mtl_backward([l1, l2], feat, Mean(), tasks_params=[[p1], [p2]], shared_params=[nlp])
    except ValueError:
        pass
    r2 = p1.grad is None and p2.grad is None
    return r1 and r2

def f2():
    A = NashMTL(2, update_weights_every=2)
    J = torch.tensor([[1., 2., 3.], [2., -1., 1.]])
    try:
        A(J); A(J)
        return True
    except TypeError:
        return False

def f3():
    try:
        ConFIG()(torch.tensor([[1., float('nan')], [1., 2.]]))
        return False
    except ValueError:
        pass
    try:
        ConFIG()(torch.ones(3))
        return False
    except ValueError:
        return True
    except Exception:
        return False

def f4():
    J = torch.tensor([[-4., 1., 1.], [6., 1., 1.]], dtype=torch.float64)
    A = IMTLG()
    return torch.allclose(A(1e13 * J) / 1e13, A(J))

for n, f in [("F1 C20 checks-after-writes", f1), ("F2 C19 NashMTL reuse", f2), ("F3 C11 ConFIG validation", f3), ("F4 C11 IMTLG homogeneity", f4)]:
    print(n, "OK" if f() else "DEFECT")


def f5():
    # C02/C06: parameters given as one-shot iterables (the signature says Iterable[Tensor]) are silently ignored
    import torch.nn as nn
    torch.manual_seed(0)
    trunk = nn.Linear(3, 2); h1 = nn.Linear(2, 1); h2 = nn.Linear(2, 1)
    x = torch.randn(4, 3)
    f = trunk(x)
    l1 = h1(f).mean(); l2 = h2(f).mean()
    mtl_backward([l1, l2], f, Mean(), tasks_params=[h1.parameters(), h2.parameters()], shared_params=trunk.parameters())
    return all(p.grad is not None for p in list(trunk.parameters()) + list(h1.parameters()) + list(h2.parameters()))


print("F5 C02 one-shot iterables in mtl_backward", "OK" if f5() else "DEFECT")
