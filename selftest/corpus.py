"""Runs the corpus for one property (thorough tier)."""

from __future__ import annotations

import ast
import json
import os
import time
from concurrent.futures import ProcessPoolExecutor

from sa.index import load_sources


def _apply(sources, v):
    if v["path"] == "*":
        from selftest.transforms import TRANSFORMS

        fn = TRANSFORMS[v.get("transform") or "unparse"]
        out = {}
        for p, txt in sources.items():
            try:
                new = fn(txt, sources) if getattr(fn, "needs_sources", False) else fn(txt)
            except Exception:
                return None
            if new != txt:
                out[p] = new
        return out or None
    out = {}
    for path, old, new in [(v["path"], v["old"], v["new"])] + list(v.get("more") or []):
        src = out.get(path, sources.get(path))
        if src is None or src.count(old) != 1:
            return None
        out[path] = src.replace(old, new)
    return out


def _seed_overlay(repo, patch_path):
    """Applies a stored seed to a temporary copy of <repo>/src and returns the changed files as an overlay."""
    import shutil
    import subprocess
    import tempfile

    tmp = tempfile.mkdtemp(prefix="verif_seed_")
    try:
        shutil.copytree(os.path.join(repo, "src"), os.path.join(tmp, "src"))
        r = subprocess.run(["patch", "-p1", "-s", "--fuzz=3", "-i", patch_path], cwd=tmp, capture_output=True)
        if r.returncode != 0:
            return None
        new = load_sources(tmp)
        old = load_sources(repo)
        return {k: v for k, v in new.items() if old.get(k) != v}
    finally:
        shutil.rmtree(tmp, ignore_errors=True)


def seeded_variants(prop):
    here = os.path.dirname(os.path.dirname(os.path.abspath(__file__)))
    out = []
    sd = os.path.join(here, "seeded")
    if not os.path.isdir(sd):
        return out
    for name in sorted(os.listdir(sd)):
        mp = os.path.join(sd, name, "meta.json")
        if not os.path.exists(mp):
            continue
        meta = json.load(open(mp))
        if prop in meta.get("detected_by", []):
            out.append(dict(id="seed:" + name, props=[prop], kind="break", path="@seed", old=os.path.join(sd, name, "patch.diff"), new="", note=meta.get("what", "")))
    return out


def keep_variants(prop):
    """Stored behaviour-preserving refactorings (seeded_keep/): every check must stay silent on each of them."""
    here = os.path.dirname(os.path.dirname(os.path.abspath(__file__)))
    out = []
    sd = os.path.join(here, "seeded_keep")
    if not os.path.isdir(sd):
        return out
    for name in sorted(os.listdir(sd)):
        pp = os.path.join(sd, name, "patch.diff")
        if os.path.exists(pp):
            lim = {}
            mp = os.path.join(sd, name, "meta.json")
            if os.path.exists(mp):
                lim = json.load(open(mp)).get("undecided_in", {})
            # a recorded limitation: this check cannot decide this refactoring (exit 2, never exit 1); see DESIGN.md A10
            out.append(dict(id="keep:" + name, props=[prop], kind="keep", path="@seed", old=pp, new="", note="", may_be_undecided=prop in lim))
    return out


def _run(args):
    prop, repo, v = args
    from sa.cli import run_property

    sources = load_sources(repo)
    ov = _seed_overlay(repo, v["old"]) if v["path"] == "@seed" else _apply(sources, v)
    if ov is None:
        return v["id"], "inapplicable", ""
    try:
        compile_ok = all(_compiles(t) for t in ov.values())
    except Exception:
        compile_ok = False
    if not compile_ok:
        return v["id"], "inapplicable", "variant does not compile"
    import contextlib
    import io

    buf = io.StringIO()
    with contextlib.redirect_stdout(buf):
        rc = run_property(prop, repo, "quick", 0, overlay=ov, write_evidence=False)
    first = next((l.strip() for l in buf.getvalue().splitlines() if "FINDING" in l or "ANALYSIS-ERROR" in l), "")
    return v["id"], rc, first[:200]


def _compiles(text):
    try:
        ast.parse(text)
        return True
    except SyntaxError:
        return False


def run_corpus(prop, repo, seed, write_evidence=True):
    from sa.cli import run_property
    from sa.report import EVIDENCE_DIR
    from selftest.variants import V

    t0 = time.time()
    rc = run_property(prop, repo, "thorough", seed, write_evidence=write_evidence)
    mine = [v for v in V if prop in v["props"]] + seeded_variants(prop) + keep_variants(prop)
    order = list(mine)
    import random

    random.Random(seed).shuffle(order)
    with ProcessPoolExecutor(max_workers=min(16, max(1, len(order)))) as ex:
        results = list(ex.map(_run, [(prop, repo, v) for v in order]))
    by = {vid: (r, first) for vid, r, first in results}
    stats = dict(variants_breaking=0, detected=0, variants_preserving=0, silent=0, inapplicable=0)
    problems = []
    table = []
    for v in mine:
        r, first = by[v["id"]]
        if r == "inapplicable":
            stats["inapplicable"] += 1
            table.append({"id": v["id"], "kind": v["kind"], "result": "inapplicable"})
            continue
        if v["kind"] == "break":
            stats["variants_breaking"] += 1
            if r == 1:
                stats["detected"] += 1
            else:
                problems.append(f"breaking variant {v['id']} not reported (exit {r}) {first}")
        else:
            stats["variants_preserving"] += 1
            if r == 0:
                stats["silent"] += 1
            elif r == 2 and v.get("may_be_undecided"):
                stats["undecided_recorded"] = stats.get("undecided_recorded", 0) + 1
            else:
                problems.append(f"preserving variant {v['id']} raised exit {r}: {first}")
        table.append({"id": v["id"], "kind": v["kind"], "result": r, "first": first})
    print(f"[{prop}] selftest: {stats}")
    if write_evidence:
        p = os.path.join(EVIDENCE_DIR, f"{prop}.json")
        try:
            ev = json.load(open(p))
            ev["coverage"].update(stats)
            ev["coverage"]["selftest"] = table
            ev["wall_s"] = round(time.time() - t0, 3)
            json.dump(ev, open(p, "w"), indent=1, default=str)
        except Exception:
            pass
    if rc == 0 and problems:
        for pr in problems:
            print(f"ANALYSIS-ERROR selftest property={prop}: {pr}")
        return 2
    for pr in problems:
        print(f"  selftest note: {pr}")
    return rc
