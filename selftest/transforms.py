"""Whole-tree behaviour-preserving source transformations (used by 'keep' variants with path '*')."""

from __future__ import annotations

import ast
import symtable


def unparse(tree):
    return ast.unparse(tree) + "\n"


# ------------------------------------------------------------------------------------------ rename locals
def _function_tables(tab, out):
    for ch in tab.get_children():
        if ch.get_type() == "function":
            out.append(ch)
        _function_tables(ch, out)


class _Renamer(ast.NodeTransformer):
    """Renames Name nodes (and the few binding forms that carry plain strings) inside ONE function scope."""

    def __init__(self, mapping):
        self.mapping = mapping

    def visit_Name(self, node):
        if node.id in self.mapping:
            node.id = self.mapping[node.id]
        return node

    def visit_ExceptHandler(self, node):
        if node.name in self.mapping:
            node.name = self.mapping[node.name]
        self.generic_visit(node)
        return node


def rename_locals(text: str, suffix="_loc") -> str:
    """Every local variable of every function that is neither a parameter nor declared global/nonlocal nor captured
    by / shared with a nested scope is renamed to <name><suffix>. Conservative: functions that contain nested function
    or class definitions, or that call locals()/vars()/eval/exec, are left alone (comprehensions and lambdas are handled:
    a name used inside them is left alone)."""
    tree = ast.parse(text)
    top = symtable.symtable(text, "<m>", "exec")
    tabs = []
    _function_tables(top, tabs)
    by_line = {}
    for t in tabs:
        by_line.setdefault((t.get_name(), t.get_lineno()), t)
    for fn in [n for n in ast.walk(tree) if isinstance(n, (ast.FunctionDef, ast.AsyncFunctionDef))]:
        line = fn.lineno if not fn.decorator_list else min(d.lineno for d in fn.decorator_list)
        t = by_line.get((fn.name, fn.lineno)) or by_line.get((fn.name, line))
        if t is None:
            continue
        nested_defs = [n for n in ast.walk(fn) if n is not fn and isinstance(n, (ast.FunctionDef, ast.AsyncFunctionDef, ast.ClassDef))]
        if nested_defs:
            continue
        if any(isinstance(n, ast.Name) and n.id in ("locals", "vars", "eval", "exec") for n in ast.walk(fn)):
            continue
        inner_names = set()
        for n in ast.walk(fn):
            if isinstance(n, (ast.Lambda, ast.ListComp, ast.SetComp, ast.DictComp, ast.GeneratorExp)):
                inner_names |= {x.id for x in ast.walk(n) if isinstance(x, ast.Name)}
        mapping = {}
        for s in t.get_symbols():
            nm = s.get_name()
            if s.is_local() and not s.is_parameter() and not s.is_global() and not s.is_nonlocal() and not s.is_imported() and nm not in inner_names \
                    and not nm.startswith("__") and s.is_assigned():
                mapping[nm] = nm + suffix
        # never capture an existing name
        used = {x.id for x in ast.walk(fn) if isinstance(x, ast.Name)}
        mapping = {k: v for k, v in mapping.items() if v not in used}
        if not mapping:
            continue
        r = _Renamer(mapping)
        fn.body = [r.visit(s) for s in fn.body]
    return unparse(tree)


# ------------------------------------------------------------------------------------------ a @ b -> torch.matmul(a, b)
class _MatMul(ast.NodeTransformer):
    def visit_BinOp(self, node):
        self.generic_visit(node)
        if isinstance(node.op, ast.MatMult):
            return ast.copy_location(ast.Call(func=ast.Attribute(value=ast.Name(id="torch", ctx=ast.Load()), attr="matmul", ctx=ast.Load()), args=[node.left, node.right], keywords=[]), node)
        return node


def matmul_calls(text: str) -> str:
    tree = ast.parse(text)
    has_torch = any(isinstance(n, ast.Import) and any(a.name == "torch" and a.asname is None for a in n.names) for n in tree.body)
    uses_np_only = "np." in text and "torch" not in text
    if not has_torch or uses_np_only:
        return text
    # only inside functions whose operands are torch tensors: skip modules that apply @ to numpy arrays
    if "import numpy" in text or "from numpy" in text or "cvxpy" in text:
        return text
    return unparse(_MatMul().visit(tree))


# ------------------------------------------------------------------------------------------ x.shape[i] -> x.size(i)
class _ShapeSize(ast.NodeTransformer):
    def visit_Subscript(self, node):
        self.generic_visit(node)
        if isinstance(node.ctx, ast.Load) and isinstance(node.value, ast.Attribute) and node.value.attr == "shape" and isinstance(node.slice, ast.Constant) and isinstance(node.slice.value, int):
            return ast.copy_location(ast.Call(func=ast.Attribute(value=node.value.value, attr="size", ctx=ast.Load()), args=[node.slice], keywords=[]), node)
        return node


def shape_to_size(text: str) -> str:
    if "import numpy" in text or "from numpy" in text:
        return text  # ndarray.size is an attribute, not a method
    return unparse(_ShapeSize().visit(ast.parse(text)))


# ------------------------------------------------------------------------------------------ if c: A else: B -> if not c: B else: A
class _SwapIf(ast.NodeTransformer):
    def visit_If(self, node):
        self.generic_visit(node)
        if node.orelse:
            t = node.test
            nt = t.operand if isinstance(t, ast.UnaryOp) and isinstance(t.op, ast.Not) else ast.UnaryOp(op=ast.Not(), operand=t)
            return ast.copy_location(ast.If(test=nt, body=node.orelse, orelse=node.body), node)
        return node


def swap_if_else(text: str) -> str:
    return unparse(ast.fix_missing_locations(_SwapIf().visit(ast.parse(text))))


# ------------------------------------------------------------------------------------------ a < b -> b > a
class _FlipCompare(ast.NodeTransformer):
    FLIP = {ast.Lt: ast.Gt, ast.Gt: ast.Lt, ast.LtE: ast.GtE, ast.GtE: ast.LtE}

    def visit_Compare(self, node):
        self.generic_visit(node)
        if len(node.ops) == 1 and type(node.ops[0]) in self.FLIP:
            return ast.copy_location(ast.Compare(left=node.comparators[0], ops=[self.FLIP[type(node.ops[0])]()], comparators=[node.left]), node)
        return node


def flip_comparisons(text: str) -> str:
    return unparse(ast.fix_missing_locations(_FlipCompare().visit(ast.parse(text))))


TRANSFORMS = {
    "unparse": lambda t: unparse(ast.parse(t)),
    "rename-locals": rename_locals,
    "matmul-calls": matmul_calls,
    "shape-to-size": shape_to_size,
    "swap-if-else": swap_if_else,
    "flip-comparisons": flip_comparisons,
}


# ------------------------------------------------------------------------------------------ if a and b: X  ->  if a: if b: X
class _SplitAnd(ast.NodeTransformer):
    def visit_If(self, node):
        self.generic_visit(node)
        if not node.orelse and isinstance(node.test, ast.BoolOp) and isinstance(node.test.op, ast.And) and len(node.test.values) == 2:
            a, b = node.test.values
            return ast.copy_location(ast.If(test=a, body=[ast.If(test=b, body=node.body, orelse=[])], orelse=[]), node)
        return node


def split_and(text: str) -> str:
    return unparse(ast.fix_missing_locations(_SplitAnd().visit(ast.parse(text))))


# ------------------------------------------------------------------------------------------ return f(x) -> result = f(x); return result
class _ReturnTemp(ast.NodeTransformer):
    def _block(self, stmts):
        out = []
        for s in stmts:
            if isinstance(s, ast.Return) and s.value is not None and not isinstance(s.value, (ast.Name, ast.Constant)):
                out.append(ast.copy_location(ast.Assign(targets=[ast.Name(id="result_", ctx=ast.Store())], value=s.value), s))
                out.append(ast.copy_location(ast.Return(value=ast.Name(id="result_", ctx=ast.Load())), s))
            else:
                out.append(s)
        return out

    def generic_visit(self, node):
        super().generic_visit(node)
        for f in ("body", "orelse", "finalbody"):
            v = getattr(node, f, None)
            if isinstance(v, list) and v and isinstance(v[0], ast.stmt):
                setattr(node, f, self._block(v))
        return node

    def visit_Lambda(self, node):
        return node


def return_temp(text: str) -> str:
    if "result_" in text:
        return text
    return unparse(ast.fix_missing_locations(_ReturnTemp().visit(ast.parse(text))))


# ------------------------------------------------------------------------------------------ no-else-return
_JUMPS = (ast.Return, ast.Raise, ast.Continue, ast.Break)


class _NoElseReturn(ast.NodeTransformer):
    def _block(self, stmts):
        out = []
        for s in stmts:
            if isinstance(s, ast.If) and s.orelse and isinstance(s.body[-1], _JUMPS):
                out.append(ast.copy_location(ast.If(test=s.test, body=s.body, orelse=[]), s))
                out.extend(self._block(s.orelse))
            else:
                out.append(s)
        return out

    def generic_visit(self, node):
        super().generic_visit(node)
        for f in ("body", "orelse", "finalbody"):
            v = getattr(node, f, None)
            if isinstance(v, list) and v and isinstance(v[0], ast.stmt):
                setattr(node, f, self._block(v))
        return node


def no_else_return(text: str) -> str:
    return unparse(ast.fix_missing_locations(_NoElseReturn().visit(ast.parse(text))))


# ------------------------------------------------------------------------------------------ x = [f(a) for a in xs] -> loop with append
def _target_names(t):
    return {n.id for n in ast.walk(t) if isinstance(n, ast.Name)}


class _CompToLoop(ast.NodeTransformer):
    def visit_FunctionDef(self, fn):
        self.generic_visit(fn)
        all_names = [n.id for n in ast.walk(fn) if isinstance(n, ast.Name)] + [a.arg for a in ast.walk(fn) if isinstance(a, ast.arg)]

        def rewrite(stmts):
            out = []
            for s in stmts:
                for f in ("body", "orelse", "finalbody"):
                    v = getattr(s, f, None)
                    if isinstance(v, list) and v and isinstance(v[0], ast.stmt):
                        setattr(s, f, rewrite(v))
                if isinstance(s, ast.Assign) and len(s.targets) == 1 and isinstance(s.targets[0], ast.Name) and isinstance(s.value, ast.ListComp) and len(s.value.generators) == 1 \
                        and not s.value.generators[0].is_async:
                    g = s.value.generators[0]
                    tn = _target_names(g.target)
                    inside = [n.id for n in ast.walk(s.value) if isinstance(n, ast.Name)]
                    res = s.targets[0].id
                    # the loop variables must not exist outside the comprehension, and the result name must not be read inside it
                    if all(all_names.count(x) == inside.count(x) for x in tn) and res not in inside and not any(isinstance(n, (ast.Lambda, ast.ListComp, ast.GeneratorExp, ast.SetComp, ast.DictComp))
                                                                                                          for n in ast.walk(s.value) if n is not s.value):
                        body = [ast.Expr(value=ast.Call(func=ast.Attribute(value=ast.Name(id=res, ctx=ast.Load()), attr="append", ctx=ast.Load()), args=[s.value.elt], keywords=[]))]
                        for c in reversed(g.ifs):
                            body = [ast.If(test=c, body=body, orelse=[])]
                        out.append(ast.copy_location(ast.Assign(targets=[ast.Name(id=res, ctx=ast.Store())], value=ast.List(elts=[], ctx=ast.Load())), s))
                        out.append(ast.copy_location(ast.For(target=g.target, iter=g.iter, body=body, orelse=[]), s))
                        continue
                out.append(s)
            return out

        fn.body = rewrite(fn.body)
        return fn


def comp_to_loop(text: str) -> str:
    return unparse(ast.fix_missing_locations(_CompToLoop().visit(ast.parse(text))))


TRANSFORMS.update({
    "split-and": split_and,
    "return-temp": return_temp,
    "no-else-return": no_else_return,
    "comp-to-loop": comp_to_loop,
})


# ------------------------------------------------------------------------------------------ De Morgan
class _DeMorgan(ast.NodeTransformer):
    def visit_UnaryOp(self, node):
        self.generic_visit(node)
        if isinstance(node.op, ast.Not) and isinstance(node.operand, ast.BoolOp):
            other = ast.And() if isinstance(node.operand.op, ast.Or) else ast.Or()
            return ast.copy_location(ast.BoolOp(op=other, values=[ast.UnaryOp(op=ast.Not(), operand=v) for v in node.operand.values]), node)
        return node

    def visit_BoolOp(self, node):
        self.generic_visit(node)
        return node


def demorgan(text: str) -> str:
    return unparse(ast.fix_missing_locations(_DeMorgan().visit(ast.parse(text))))


# ------------------------------------------------------------------------------------------ x is not None -> not (x is None), a != b -> not (a == b)
class _NegatedCompare(ast.NodeTransformer):
    MAP = {ast.IsNot: ast.Is, ast.NotIn: ast.In}

    def visit_Compare(self, node):
        self.generic_visit(node)
        if len(node.ops) == 1 and type(node.ops[0]) in self.MAP:
            inner = ast.Compare(left=node.left, ops=[self.MAP[type(node.ops[0])]()], comparators=node.comparators)
            return ast.copy_location(ast.UnaryOp(op=ast.Not(), operand=inner), node)
        return node


def negated_compare(text: str) -> str:
    return unparse(ast.fix_missing_locations(_NegatedCompare().visit(ast.parse(text))))


# ------------------------------------------------------------------------------------------ x = a if c else b  <->  if c: x = a else: x = b
class _TernaryToIf(ast.NodeTransformer):
    def _block(self, stmts):
        out = []
        for s in stmts:
            if isinstance(s, ast.Assign) and len(s.targets) == 1 and isinstance(s.targets[0], ast.Name) and isinstance(s.value, ast.IfExp):
                t = s.targets[0]
                out.append(ast.copy_location(ast.If(test=s.value.test, body=[ast.Assign(targets=[ast.Name(id=t.id, ctx=ast.Store())], value=s.value.body)],
                                                    orelse=[ast.Assign(targets=[ast.Name(id=t.id, ctx=ast.Store())], value=s.value.orelse)]), s))
            elif isinstance(s, ast.Return) and isinstance(s.value, ast.IfExp):
                out.append(ast.copy_location(ast.If(test=s.value.test, body=[ast.Return(value=s.value.body)], orelse=[ast.Return(value=s.value.orelse)]), s))
            else:
                out.append(s)
        return out

    def generic_visit(self, node):
        super().generic_visit(node)
        for f in ("body", "orelse", "finalbody"):
            v = getattr(node, f, None)
            if isinstance(v, list) and v and isinstance(v[0], ast.stmt):
                setattr(node, f, self._block(v))
        return node

    def visit_Lambda(self, node):
        return node


def ternary_to_if(text: str) -> str:
    return unparse(ast.fix_missing_locations(_TernaryToIf().visit(ast.parse(text))))


class _IfToTernary(ast.NodeTransformer):
    def visit_If(self, node):
        self.generic_visit(node)
        if len(node.body) == 1 and len(node.orelse) == 1:
            a, b = node.body[0], node.orelse[0]
            if isinstance(a, ast.Assign) and isinstance(b, ast.Assign) and len(a.targets) == 1 and len(b.targets) == 1 and isinstance(a.targets[0], ast.Name) \
                    and isinstance(b.targets[0], ast.Name) and a.targets[0].id == b.targets[0].id:
                return ast.copy_location(ast.Assign(targets=[ast.Name(id=a.targets[0].id, ctx=ast.Store())], value=ast.IfExp(test=node.test, body=a.value, orelse=b.value)), node)
            if isinstance(a, ast.Return) and isinstance(b, ast.Return) and a.value is not None and b.value is not None:
                return ast.copy_location(ast.Return(value=ast.IfExp(test=node.test, body=a.value, orelse=b.value)), node)
        return node


def if_to_ternary(text: str) -> str:
    return unparse(ast.fix_missing_locations(_IfToTernary().visit(ast.parse(text))))


TRANSFORMS.update({
    "demorgan": demorgan,
    "negated-compare": negated_compare,
    "ternary-to-if": ternary_to_if,
    "if-to-ternary": if_to_ternary,
})


# ------------------------------------------------------------------------------------------ every private def / class renamed
def _anchor_words():
    """Identifiers that the property records name as anchors: they are given, a check may look them up by name."""
    import json
    import os
    import re

    words = set()
    p = os.path.join(os.path.dirname(os.path.dirname(os.path.abspath(__file__))), "properties.jsonl")
    for line in open(p, encoding="utf-8"):
        line = line.strip()
        if line:
            a = json.loads(line).get("anchors", {})
            for m in a.get("mechanism", []):
                words |= set(re.findall(r"[A-Za-z_][A-Za-z0-9_]*", m.get("where", "")))
    return words


class _RenamePrivate(ast.NodeTransformer):
    def __init__(self, names):
        self.names = names

    def _n(self, s):
        return s + "_rp" if s in self.names else s

    def visit_FunctionDef(self, node):
        node.name = self._n(node.name)
        self.generic_visit(node)
        return node

    visit_AsyncFunctionDef = visit_FunctionDef

    def visit_ClassDef(self, node):
        node.name = self._n(node.name)
        self.generic_visit(node)
        return node

    def visit_Name(self, node):
        node.id = self._n(node.id)
        return node

    def visit_Attribute(self, node):
        self.generic_visit(node)
        node.attr = self._n(node.attr)
        return node

    def visit_ImportFrom(self, node):
        for a in node.names:
            a.name = self._n(a.name)  # the imported object, never the module path
            if a.asname:
                a.asname = self._n(a.asname)
        return node

    def visit_keyword(self, node):
        self.generic_visit(node)
        return node


def rename_private(text: str, sources: dict) -> str:
    """Every private (single leading underscore) function, method and class defined in the package gets a new name, in its
    definition and at every reference; module paths, dunder names, attributes that are not definitions, and the names the
    property records give as anchors keep theirs."""
    cache = rename_private.__dict__.setdefault("_cache", {})
    key = id(sources)
    if key not in cache:
        defined = set()
        for t in sources.values():
            for n in ast.walk(ast.parse(t)):
                if isinstance(n, (ast.FunctionDef, ast.AsyncFunctionDef, ast.ClassDef)) and n.name.startswith("_") and not n.name.startswith("__"):
                    defined.add(n.name)
        cache.clear()
        cache[key] = defined - _anchor_words()
    names = cache[key]
    tree = ast.parse(text)
    # `__all__`-style strings and getattr strings do not occur for private names in this package; strings are left alone
    return unparse(ast.fix_missing_locations(_RenamePrivate(names).visit(tree)))


rename_private.needs_sources = True
TRANSFORMS["rename-private"] = rename_private
