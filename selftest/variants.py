"""Mutation corpus: edits of the CURRENT /repo tree, applied as in-memory overlays (never written to /repo).

Each variant: id, props (checks expected to react / stay silent), kind ('break' | 'keep'), path, old, new.
`old` must occur exactly once in the file, otherwise the variant is counted 'inapplicable' on this tree."""

A = "src/torchjd/aggregation/"
J = "src/torchjd/autojac/"
T = J + "_transform/"

V = []


def b(id, props, path, old, new, note="", more=None):
    V.append(dict(id=id, props=props, kind="break", path=path, old=old, new=new, note=note, more=more))


def k(id, props, path, old, new, note="", more=None, transform=None):
    V.append(dict(id=id, props=props, kind="keep", path=path, old=old, new=new, note=note, more=more, transform=transform))


# ------------------------------------------------------------------------------------------------ breaking
# C01 / C15 layout
b("disunite-reversed", ["C01", "C15"], T + "aggregate.py", "for key, jacobian_matrix in jacobian_matrices.items():", "for key, jacobian_matrix in reversed(jacobian_matrices.items()):", "measured: slice swap survives the suite")
b("vstack-reversed", ["C01", "C15"], T + "jac.py", "torch.vstack(jac_matrix_chunks)", "torch.vstack(jac_matrix_chunks[::-1])", "measured: reversed rows survive the suite")
b("diagonalize-set", ["C01", "C05"], J + "backward.py", "diag = Diagonalize(tensors)", "diag = Diagonalize(set(tensors))")
b("materialize-dropped", ["C01", "C15"], T + "jac.py", "grads = _materialize(optional_grads, inputs=inputs)", "grads = optional_grads")
b("cotangents-reversed", ["C01", "C15"], T + "_differentiate.py", "tensor_outputs = [tensors[output] for output in self.outputs]", "tensor_outputs = [tensors[output] for output in reversed(self.outputs)]")
b("unite-sorted", ["C01", "C15"], T + "aggregate.py", "torch.cat(list(jacobian_matrices.values()), dim=1)", "torch.cat(sorted(jacobian_matrices.values(), key=id), dim=1)")
b("init-zeros", ["C05", "C15"], T + "init.py", "torch.ones_like(value)", "torch.zeros_like(value)")
b("transpose-in-pipeline", ["C01"], T + "aggregate.py", "jacobian.view(jacobian.shape[0], -1)", "jacobian.view(jacobian.shape[0], -1).T.T")
b("aggregator-skipped-single-row", ["C01", "C02", "C05", "C15"], T + "aggregate.py", "united_gradient_vector = aggregator(united_jacobian_matrix)",
  "united_gradient_vector = aggregator(united_jacobian_matrix) if united_jacobian_matrix.shape[0] != 1 else united_jacobian_matrix[0]")
b("backward-iterable-consumed", ["C01"], J + "backward.py", "        inputs = set(inputs)\n", "        for _t in inputs:\n            pass\n        inputs = set(inputs)\n")
# C02
b("stack-reversed", ["C02"], J + "mtl_backward.py", "stack = Stack(task_transforms)", "stack = Stack(task_transforms[::-1])", "measured: reversed task rows survive")
b("zip-reversed-tasks", ["C02"], J + "mtl_backward.py", "for task_params, loss in zip(tasks_params, losses)", "for task_params, loss in zip(reversed(tasks_params), losses)")
b("stack-last-dim", ["C02", "C15"], T + "stack.py", "torch.stack(gradients, dim=0)", "torch.stack(gradients, dim=-1)")
b("mtl-early-return", ["C02", "C06"], J + "mtl_backward.py", "    for param in [*shared_params,", "    if len(shared_params) == 0:\n        return\n\n    for param in [*shared_params,")
b("overlap-check-dropped", ["C02", "C12"], J + "mtl_backward.py", "    _check_no_overlap(shared_params, tasks_params)\n", "")
# C03
b("eps-swapped", ["C03"], A + "upgrad.py", "_compute_regularized_normalized_gramian(matrix, self.norm_eps, self.reg_eps)", "_compute_regularized_normalized_gramian(matrix, self.reg_eps, self.norm_eps)", "measured")
b("pref-ignored-dualproj", ["C03"], A + "dualproj.py", "        weighting = _pref_vector_to_weighting(pref_vector, default=_MeanWeighting())\n", "        weighting = _MeanWeighting()\n")
b("solver-hardwired", ["C03"], A + "_dual_cone_utils.py", "solve_qp(G, np.zeros(m), -np.eye(m), -u, solver=solver)", 'solve_qp(G, np.zeros(m), -np.eye(m), -u, solver="quadprog")')
b("unregularized", ["C03"], A + "_gramian_utils.py", "    return _regularize(normalized_gramian, reg_eps)", "    return normalized_gramian")
# C05
b("mean-off-by-one", ["C05"], A + "mean.py", "fill_value=1 / m", "fill_value=1 / (m + 1)")
b("combine-extra-term", ["C05", "C10"], A + "bases.py", "        vector = weights @ matrix\n", "        vector = weights @ matrix + matrix[0]\n")
b("constant-abs", ["C05"], A + "constant.py", "        return self.weights\n", "        return self.weights.abs()\n")
# C06
b("clone-dropped", ["C06"], T + "accumulate.py", "key.grad = gradients[key].clone()", "key.grad = gradients[key]")
b("grad-reset", ["C06"], J + "backward.py", "    backward_transform(EmptyTensorDict())", "    for _p in inputs:\n        _p.grad = None\n    backward_transform(EmptyTensorDict())")
b("autograd-backward-used", ["C06"], T + "grad.py", "        grads = _materialize(optional_grads, inputs)\n", "        torch.autograd.backward(outputs, grad_outputs, inputs=inputs)\n        grads = _materialize(optional_grads, inputs)\n")
b("inplace-on-key", ["C06"], T + "accumulate.py", "            _check_expects_grad(key)\n", "            _check_expects_grad(key)\n            key.mul_(1.0)\n")
# C07
b("chunk-end-off-by-one", ["C07"], T + "jac.py", "end = (i + 1) * max_chunk_size", "end = (i + 1) * max_chunk_size + 1")
b("n-chunks-floor", ["C07"], T + "jac.py", "n_chunks = math.ceil(m / max_chunk_size)", "n_chunks = m // max_chunk_size")
b("vmap-unconditional", ["C07"], T + "jac.py", "    if chunk_size == 1:", "    if chunk_size == 0:")
b("vmap-last-block", ["C07"], T + "jac.py", "jac_matrix_chunks.append(_get_jac_matrix_chunk(jac_outputs_chunk, get_vjp_last))", "jac_matrix_chunks.append(torch.vmap(get_vjp_last)(jac_outputs_chunk))")
# C08
b("krum-cdist-p1", ["C08"], A + "krum.py", 'compute_mode="donot_use_mm_for_euclid_dist")', 'compute_mode="donot_use_mm_for_euclid_dist", p=1)')
b("imtlg-abs-sum", ["C08"], A + "imtl_g.py", "d = torch.linalg.norm(matrix, dim=1)", "d = matrix.abs().sum(dim=1)")
b("gramian-uses-V", ["C08"], A + "_gramian_utils.py", "left_unitary_matrix, singular_values, _ = torch.linalg.svd(matrix, full_matrices=False)",
  "left_unitary_matrix, singular_values, _v = torch.linalg.svd(matrix, full_matrices=False)\n        singular_values = singular_values * (1 + 0 * _v[:, 0])")
b("mean-reads-ncols", ["C08"], A + "mean.py", "fill_value=1 / m", "fill_value=1 / m + 0 * matrix.shape[1]")
b("trimmed-mean-dim1", ["C08", "C16"], A + "trimmed_mean.py", "sorted_matrix, _ = torch.sort(matrix, dim=0)", "sorted_matrix, _ = torch.sort(matrix, dim=1)")
# C10
b("mgda-onehot-start", ["C10"], A + "mgda.py", "alpha = torch.ones(matrix.shape[0], device=device, dtype=dtype) / matrix.shape[0]",
  "alpha = torch.zeros(matrix.shape[0], device=device, dtype=dtype)\n        alpha[0] = 1.0")
b("upgrad-sum-drops-last", ["C10"], A + "upgrad.py", "return torch.sum(W, dim=0)", "return torch.sum(W[:-1], dim=0)")
b("krum-arange-tiebreak", ["C10"], A + "krum.py", "scores = smallest_distances_excluding_self.sum(dim=1)", "scores = smallest_distances_excluding_self.sum(dim=1) + 1e-9 * torch.arange(matrix.shape[0])")
b("trimmedmean-narrow-before-sort", ["C10", "C16"], A + "trimmed_mean.py", "sorted_matrix, _ = torch.sort(matrix, dim=0)\n        trimmed = torch.narrow(sorted_matrix,",
  "sorted_matrix = matrix\n        trimmed = torch.narrow(sorted_matrix,")
# C11
b("trimmedmean-finite-check-removed", ["C11"], A + "trimmed_mean.py", "        self._check_is_finite(matrix)\n", "", "measured")
b("finite-check-nan-only", ["C11"], A + "bases.py", "if not matrix.isfinite().all():", "if matrix.isnan().any():", "infinite entries are no longer rejected")
b("finite-check-inverted", ["C11"], A + "bases.py", "if not matrix.isfinite().all():", "if matrix.isfinite().all():")
b("finite-check-any-finite", ["C11"], A + "bases.py", "if not matrix.isfinite().all():", "if not matrix.isfinite().any():", "only an input without any finite entry is rejected")
b("finite-check-nan-and-inf", ["C11"], A + "bases.py", "if not matrix.isfinite().all():", "if (matrix.isnan() & matrix.isinf()).any():", "never true")
b("constant-rowcount-check-removed", ["C11"], A + "constant.py", "        self._check_matrix_shape(matrix)\n", "", "measured")
b("matrix-abs-inplace", ["C11"], A + "graddrop.py", "        fP = self.f(P)\n", "        fP = self.f(P)\n        matrix.abs_()\n")
b("weights-cached-on-self", ["C11", "C05"], A + "mean.py", "        return weights\n", "        self._last = weights\n        return weights\n")
b("mean-dtype-dropped", ["C11"], A + "mean.py", "device=device, dtype=dtype)", "device=device)")
b("mgda-absolute-threshold", ["C11"], A + "mgda.py", "            if c <= a:", "            if b < 1e-4:\n                break\n            if c <= a:")
b("norm-threshold-literal", ["C11", "C03"], A + "_gramian_utils.py", "    if max_singular_value < eps:", "    if max_singular_value < 1e-2:")
b("numpy-rng", ["C11"], A + "random.py", "random_vector = torch.randn(matrix.shape[0], device=matrix.device, dtype=matrix.dtype)",
  "import numpy as np\n        random_vector = torch.as_tensor(np.random.randn(matrix.shape[0]), device=matrix.device, dtype=matrix.dtype)")
# C12
b("task-discovery-no-exclusion", ["C12"], J + "mtl_backward.py", "_get_leaf_tensors(tensors=[loss], excluded=features)", "_get_leaf_tensors(tensors=[loss], excluded=[])")
b("traversal-ignores-excluded", ["C12"], J + "_utils.py", "nodes_to_traverse = deque(roots - excluded_nodes)", "nodes_to_traverse = deque(roots)")
b("traversal-no-visited-test", ["C12"], J + "_utils.py", "if child is not None and child not in excluded_nodes:", "if child is not None:")
b("default-branch-postprocess", ["C12"], J + "backward.py", "        inputs = _get_leaf_tensors(tensors=tensors, excluded=set())\n", "        inputs = _get_leaf_tensors(tensors=tensors, excluded=set())\n        tensors = tensors[:1]\n")
# C13
b("task-grad-retain-hardwired", ["C13"], J + "mtl_backward.py", "grad = Grad([loss], to_differentiate, retain_graph)", "grad = Grad([loss], to_differentiate, True)", "measured")
b("last-sweep-retains", ["C13"], T + "jac.py", "get_vjp_last = partial(_get_vjp, retain_graph=self.retain_graph)", "get_vjp_last = get_vjp_retain")
b("partials-swapped", ["C13"], T + "jac.py", "jac_matrix_chunks.append(_get_jac_matrix_chunk(jac_outputs_chunk, get_vjp_retain))", "jac_matrix_chunks.append(_get_jac_matrix_chunk(jac_outputs_chunk, partial(_get_vjp, retain_graph=self.retain_graph)))")
b("retain-into-create-graph", ["C13"], J + "backward.py", "jac = Jac(tensors, inputs, parallel_chunk_size, retain_graph)", "jac = Jac(tensors, inputs, parallel_chunk_size, False, retain_graph)")
# C14
b("select-output-keys-wrong", ["C14"], T + "select.py", "        return self.keys\n", "        return self._required_keys\n")
b("composition-issubset", ["C14"], T + "base.py", "if outer.required_keys != inner.output_keys:", "if not outer.required_keys.issubset(inner.output_keys):")
b("pop-mutator-missing", ["C14"], T + "tensor_dict.py", "    pop = _raise_immutable_error\n", "")
b("check-all-pairs-first-only", ["C14"], T + "tensor_dict.py", "            cls._check_key_value_pair(key, value)\n", "            cls._check_key_value_pair(key, value)\n            break\n")
b("compute-called-directly", ["C14"], T + "base.py", "        return self.outer(intermediate)\n", "        return self.outer._compute(intermediate)\n",
  "nothing has compared the intermediate dictionary with outer.required_keys")
b("compute-called-directly-unchecked-members", ["C14"], T + "stack.py", "        results = [transform(input) for transform in self.transforms]", "        results = [transform._compute(input) for transform in self.transforms]",
  more=[(T + "stack.py", "            if transform.required_keys != self.required_keys:\n                raise ValueError(\"All transforms should require the same set of keys.\")\n", "            pass\n")])
b("key-check-after-compute", ["C14"], T + "base.py", "        input.check_keys_are(self.required_keys)\n        return self._compute(input)", "        out = self._compute(input)\n        input.check_keys_are(self.required_keys)\n        return out")
# C16
b("krum-neighbourhood-off-by-one", ["C16"], A + "krum.py", "n_closest = matrix.shape[0] - self.n_byzantine - 2", "n_closest = matrix.shape[0] - self.n_byzantine - 1", "measured")
b("trimmedmean-start-off-by-one", ["C16"], A + "trimmed_mean.py", "start=self.trim_number, length=n_remaining", "start=self.trim_number + 1, length=n_remaining")
b("trimmedmean-length", ["C16"], A + "trimmed_mean.py", "n_remaining = n_rows - 2 * self.trim_number", "n_remaining = n_rows - self.trim_number")
b("krum-largest", ["C16"], A + "krum.py", "_, selected_indices = torch.topk(scores, k=self.n_selected, largest=False)", "_, selected_indices = torch.topk(scores, k=self.n_selected, largest=True)")
b("krum-min-rows", ["C16"], A + "krum.py", "min_rows = self.n_byzantine + 3", "min_rows = self.n_byzantine + 2")
# C18
b("pcgrad-original-row", ["C18"], A + "pcgrad.py", "inner_product = inner_products[j] @ current_weights", "inner_product = inner_products[j, i]", "measured")
b("graddrop-leak-misweighted", ["C18"], A + "graddrop.py", "(leak[i] + (1 - leak[i]) * M_i)", "(leak[i] + (1 - leak[i] / 2) * M_i)", "measured")
b("graddrop-draw-in-loop", ["C18"], A + "graddrop.py", "            M_i = (fP > U)", "            U = torch.rand(P.shape, dtype=matrix.dtype, device=matrix.device)\n            M_i = (fP > U)")
b("random-no-softmax", ["C18"], A + "random.py", "weights = F.softmax(random_vector, dim=-1)", "weights = random_vector.abs() / random_vector.abs().sum()")
b("mgda-nonconvex-step", ["C18"], A + "mgda.py", "alpha = (1 - gamma) * alpha + gamma * e_t", "alpha = alpha + gamma * e_t")
# C19
b("reset-forgets-step", ["C19"], A + "nash_mtl.py", "        self.init_gtg = np.eye(self.n_tasks)\n        self.step = 0.0\n        self.prvs_alpha = np.ones(self.n_tasks, dtype=np.float32)\n\n    def _stop",
  "        self.init_gtg = np.eye(self.n_tasks)\n        self.step = 0.0\n        self.prvs_alpha = np.ones(self.n_tasks, dtype=np.float32)\n        self._calls = 0\n\n    def _stop", "placeholder, replaced below")
b("step-before-test", ["C19"], A + "nash_mtl.py", "        if (self.step % self.update_weights_every) == 0:\n            self.step += 1\n", "        self.step += 1\n        if (self.step % self.update_weights_every) == 0:\n            pass\n")
b("reuse-ndarray", ["C19"], A + "nash_mtl.py", "alpha = torch.from_numpy(self.prvs_alpha).to(device=matrix.device, dtype=matrix.dtype)", "alpha = self.prvs_alpha")
# C20
b("chunk-check-after-pipeline", ["C20"], J + "mtl_backward.py", "    backward_transform(EmptyTensorDict())\n\n\ndef _make_task_transform", "    backward_transform(EmptyTensorDict())\n    _check_optional_positive_chunk_size(parallel_chunk_size)\n\n\ndef _make_task_transform",
  more=[(J + "mtl_backward.py", "    _check_optional_positive_chunk_size(parallel_chunk_size)\n\n    features", "    features")])
k("chunk-check-repeated-after-pipeline", ["C20", "C07"], J + "mtl_backward.py", "    backward_transform(EmptyTensorDict())\n\n\ndef _make_task_transform", "    backward_transform(EmptyTensorDict())\n    _check_optional_positive_chunk_size(parallel_chunk_size)\n\n\ndef _make_task_transform",
  "the same question was already answered before any write: the second check cannot fire")
b("upfront-expects-grad-dropped", ["C20"], J + "backward.py", "    for input in inputs:\n        _check_expects_grad(input)\n", "")

# ------------------------------------------------------------------------------------------------ preserving
ALL = ["C01", "C02", "C03", "C05", "C06", "C07", "C08", "C10", "C11", "C12", "C13", "C14", "C15", "C16", "C18", "C19", "C20"]
k("combine-matmul-call", ["C05", "C08", "C10", "C11"], A + "bases.py", "vector = weights @ matrix", "vector = weights.matmul(matrix)")
k("combine-transposed", ["C05", "C08", "C10", "C11"], A + "bases.py", "vector = weights @ matrix", "vector = matrix.T @ weights")
k("cat-vs-concatenate", ["C01", "C02", "C15", "C07"], T + "jac.py", "torch.concatenate([grad.reshape([-1]) for grad in grads])", "torch.cat([grad.reshape([-1]) for grad in grads])")
k("ceil-as-negative-floordiv", ["C07", "C01", "C13"], T + "jac.py", "n_chunks = math.ceil(m / max_chunk_size)", "n_chunks = -(-m // max_chunk_size)")
k("disunite-index-loop", ["C01", "C15"], T + "aggregate.py", "for key, jacobian_matrix in jacobian_matrices.items():\n            end = start + jacobian_matrix.shape[1]",
  "for key in jacobian_matrices:\n            jacobian_matrix = jacobian_matrices[key]\n            end = start + jacobian_matrix.shape[1]")
k("accumulate-negated-test", ["C06", "C01", "C20"], T + "accumulate.py",
  "            if hasattr(key, \"grad\") and key.grad is not None:\n                key.grad += gradients[key]\n            else:",
  "            if getattr(key, \"grad\", None) is not None:\n                key.grad += gradients[key]\n            else:")
k("trimmedmean-slice-form", ["C16", "C08", "C10", "C11"], A + "trimmed_mean.py", "trimmed = torch.narrow(sorted_matrix, dim=0, start=self.trim_number, length=n_remaining)",
  "trimmed = sorted_matrix[self.trim_number : n_rows - self.trim_number]")
k("krum-arithmetic-regrouped", ["C16", "C10"], A + "krum.py", "n_closest = matrix.shape[0] - self.n_byzantine - 2", "n_closest = matrix.shape[0] - (self.n_byzantine + 2)")
k("finite-check-nan-or-inf", ["C11", "C08", "C10"], A + "bases.py", "if not matrix.isfinite().all():", "if (matrix.isnan() | matrix.isinf()).any():")
k("finite-check-not-any-nonfinite", ["C11", "C08"], A + "bases.py", "if not matrix.isfinite().all():", "if torch.logical_not(torch.isfinite(matrix)).any():", more=[(A + "bases.py", "from torch import Tensor, nn", "import torch\nfrom torch import Tensor, nn")])
k("checks-reordered", ["C11", "C08"], A + "bases.py", "        self._check_is_matrix(matrix)\n        self._check_is_finite(matrix)\n\n        weights", "        self._check_is_matrix(matrix)\n        self._check_is_finite(matrix)\n        weights")
k("upgrad-sum-method", ["C03", "C08", "C10"], A + "upgrad.py", "return torch.sum(W, dim=0)", "return W.sum(dim=0)")
k("mgda-step-refactored", ["C18", "C10", "C11"], A + "mgda.py", "alpha = (1 - gamma) * alpha + gamma * e_t", "alpha = alpha + gamma * (e_t - alpha)")
k("nash-reset-reordered", ["C19"], A + "nash_mtl.py", "        self.step = 0.0\n        self.prvs_alpha = np.ones(self.n_tasks, dtype=np.float32)\n\n    def _stop",
  "        self.prvs_alpha = np.ones(self.n_tasks, dtype=np.float32)\n        self.step = 0.0\n\n    def _stop")
k("local-renamed", ["C01", "C15", "C06"], T + "aggregate.py", "united_gradient_vector = aggregator(united_jacobian_matrix)\n        gradient_vectors = _AggregateMatrices._disunite(united_gradient_vector, jacobian_matrices)",
  "aggregated = aggregator(united_jacobian_matrix)\n        gradient_vectors = _AggregateMatrices._disunite(aggregated, jacobian_matrices)")
k("retain-flag-local", ["C13"], T + "jac.py", "get_vjp_last = partial(_get_vjp, retain_graph=self.retain_graph)", "keep = self.retain_graph\n        get_vjp_last = partial(_get_vjp, retain_graph=keep)")
k("overlap-check-inline-sets", ["C12", "C02"], J + "mtl_backward.py", "    intersection = task_param_set.intersection(shared_param_set)", "    intersection = task_param_set & shared_param_set")
k("accumulate-add-method", ["C06", "C20", "C01"], T + "accumulate.py", "                key.grad += gradients[key]\n", "                key.grad.add_(gradients[key])\n")
k("disunite-torch-split", ["C01", "C15", "C14"], T + "aggregate.py",
  "        gradient_vectors = {}\n        start = 0\n        for key, jacobian_matrix in jacobian_matrices.items():\n            end = start + jacobian_matrix.shape[1]\n            current_gradient_vector = united_gradient_vector[start:end]\n            gradient_vectors[key] = current_gradient_vector\n            start = end\n",
  "        widths = [jacobian_matrix.shape[1] for jacobian_matrix in jacobian_matrices.values()]\n        parts = united_gradient_vector.split(widths)\n        gradient_vectors = dict(zip(jacobian_matrices.keys(), parts))\n")
k("extract-torch-split", ["C01", "C15", "C02"], T + "jac.py", "        jac_matrices = _extract_sub_matrices(jac_matrix, lengths)\n", "        jac_matrices = list(torch.split(jac_matrix, lengths, dim=1))\n")
k("materialize-grads-flag", ["C01", "C15", "C02"], T + "grad.py",
  "            allow_unused=True,\n        )\n        grads = _materialize(optional_grads, inputs)\n", "            allow_unused=True,\n            materialize_grads=True,\n        )\n        grads = optional_grads\n")
k("inputs-ordered-dedup", ["C01", "C06", "C12", "C20"], J + "backward.py", "        inputs = set(inputs)\n", "        inputs = list(dict.fromkeys(inputs))\n")
k("tensordict-validate-helper", ["C14"], T + "tensor_dict.py",
  "        self._check_dict(tensor_dict)\n        self._check_all_pairs(tensor_dict)\n        super().__init__(tensor_dict)\n",
  "        self._validate(tensor_dict)\n        super().__init__(tensor_dict)\n\n    def _validate(self, tensor_dict: dict[Tensor, Tensor]) -> None:\n        self._check_dict(tensor_dict)\n        self._check_all_pairs(tensor_dict)\n")
k("traversal-guard-by-continue", ["C12"], J + "_utils.py",
  "            if child is not None and child not in excluded_nodes:\n                nodes_to_traverse.append(child)  # Append to the right\n                excluded_nodes.add(child)\n",
  "            if child is None or child in excluded_nodes:\n                continue\n            nodes_to_traverse.append(child)\n            excluded_nodes.add(child)\n")
k("pcgrad-skip-by-guard", ["C18", "C10"], A + "pcgrad.py", "                if j == i:\n                    continue\n", "                if j == i:\n                    continue  # a row is never projected off itself\n")
k("unparse-roundtrip", ALL, "*", "", "", "ast.unparse of every file: drops comments, moves every line")

# NashMTL reset(): anchored on its docstring
V[:] = [v for v in V if v["id"] != "reset-forgets-step"]
_R = '        """Resets the internal state of the algorithm."""\n\n        self.prvs_alpha_param = None\n        self.normalization_factor = np.ones((1,))\n        self.init_gtg = np.eye(self.n_tasks)\n        self.step = 0.0\n'
b("reset-forgets-step", ["C19"], A + "nash_mtl.py", _R, _R.replace("        self.step = 0.0\n", ""))
b("reset-wrong-value", ["C19"], A + "nash_mtl.py", _R, _R.replace("np.ones((1,))", "np.zeros((1,))"))
b("new-cache-field-not-reset", ["C19"], A + "nash_mtl.py", "            GTG = torch.mm(G, G.t())\n", "            GTG = torch.mm(G, G.t())\n            self.last_gtg = GTG\n")

k("rename-all-locals", ALL, "*", "", "", "every local variable of every function renamed (symtable-based, closures left alone)", transform="rename-locals")
k("matmul-as-call", ALL, "*", "", "", "every `a @ b` on torch values written torch.matmul(a, b)", transform="matmul-calls")
k("shape-index-as-size-call", ALL, "*", "", "", "every `x.shape[i]` written x.size(i) (torch modules only)", transform="shape-to-size")
k("if-else-swapped", ALL, "*", "", "", "every if/else written with the negated test and swapped branches", transform="swap-if-else")
k("comparisons-flipped", ALL, "*", "", "", "every a < b written b > a (and <=, >, >=)", transform="flip-comparisons")
k("and-conditions-nested", ALL, "*", "", "", "every `if a and b:` without else written as nested ifs", transform="split-and")
k("return-through-local", ALL, "*", "", "", "every `return <expr>` written `result_ = <expr>; return result_`", transform="return-temp")
k("no-else-after-jump", ALL, "*", "", "", "else branches after return/raise/continue/break dedented (pylint no-else-return)", transform="no-else-return")
k("comprehensions-as-loops", ALL, "*", "", "", "list comprehensions assigned to a local written as append loops (where the loop variable cannot clash)", transform="comp-to-loop")
k("de-morgan", ALL, "*", "", "", "every `not (a or b)` / `not (a and b)` distributed", transform="demorgan")
k("is-not-as-not-is", ALL, "*", "", "", "every `x is not y` / `x not in y` written `not (x is y)` / `not (x in y)`", transform="negated-compare")
k("conditional-expressions-as-statements", ALL, "*", "", "", "every `x = a if c else b` / `return a if c else b` written as an if statement", transform="ternary-to-if")
k("if-statements-as-conditional-expressions", ALL, "*", "", "", "every two-armed if assigning one name (or returning) written as a conditional expression", transform="if-to-ternary")

k("compute-called-directly-redundant", ["C14"], T + "aggregate.py", "        return self.transform(input)\n", "        return self.transform._compute(input)\n",
  "Aggregate.required_keys IS self.transform.required_keys: the skipped check repeats the one __call__ just made")
k("compute-called-directly-checked-members", ["C14"], T + "stack.py", "        results = [transform(input) for transform in self.transforms]", "        results = [transform._compute(input) for transform in self.transforms]",
  "Stack.__init__ rejects members whose required keys differ from its own")
k("private-names-renamed", ALL, "*", "", "", "every private function, method and class of the package renamed at its definition and at every reference (names given by the property anchors excepted)", transform="rename-private")

# GradDrop written as one tensor expression (see seeded_keep/C18-r5K4) and two broken twins of that form
_GD_LOOP = "        for i in range(len(matrix)):\n            M_i = (fP > U) * (matrix[i] > 0) + (fP < U) * (matrix[i] < 0)\n            vector += (leak[i] + (1 - leak[i]) * M_i) * matrix[i]\n"
_GD_VEC = "        M = (fP > U) * (matrix > 0) + (fP < U) * (matrix < 0)\n        row_leak = leak.unsqueeze(1)\n        vector += ((row_leak + (1 - row_leak) * M) * matrix).sum(dim=0)\n"
k("graddrop-vectorised", ["C18", "C10", "C11"], A + "graddrop.py", _GD_LOOP, _GD_VEC)
b("graddrop-vectorised-leak-along-columns", ["C18"], A + "graddrop.py", _GD_LOOP, _GD_VEC.replace("leak.unsqueeze(1)", "leak.unsqueeze(0)"),
  "the leak vector is broadcast along the rows: entry (i, j) is leaked with leak_j (and the shapes only agree for square matrices)")
b("graddrop-vectorised-kept-entries-leaked", ["C18"], A + "graddrop.py", _GD_LOOP, _GD_VEC.replace("(row_leak + (1 - row_leak) * M)", "(row_leak + (1 - row_leak) * M * row_leak)"),
  "kept entries weigh leak_i + (1 - leak_i)·leak_i instead of 1")


# PCGrad over a precomputed schedule of (i, j) pairs (see seeded_keep/C18-r5K2): two broken twins of that form, kept as patches
import os as _os
_PD = _os.path.join(_os.path.dirname(_os.path.abspath(__file__)), "patches")
b("pcgrad-schedule-transposed-update", ["C18"], "@seed", _os.path.join(_PD, "pcgrad-schedule-transposed-update.diff"), "", "the update hits W[j, i]: the weight of row i in the projected vector of row j")
b("pcgrad-schedule-self-not-skipped", ["C18"], "@seed", _os.path.join(_PD, "pcgrad-schedule-self-not-skipped.diff"), "", "the schedule no longer leaves out j == i")
# PCGrad walking zip(order, G[order]) (see seeded_keep/C18-r6K1): broken twins
b("pcgrad-zip-misaligned", ["C18"], "@seed", _os.path.join(_PD, "pcgrad-zip-misaligned.diff"), "", "zip(order, G): the k-th visited row is paired with row k of G, not row order[k]")
b("pcgrad-zip-self-not-skipped", ["C18"], "@seed", _os.path.join(_PD, "pcgrad-zip-self-not-skipped.diff"), "", "row i is projected off itself")
# Jac over tensor.split(k) with one block of look-ahead (see seeded_keep/C07-r6K1): broken twin
b("jac-split-oversized", ["C07"], "@seed", _os.path.join(_PD, "jac-split-oversized.diff"), "", "blocks of k + 1 rows")
# Krum distances through F.pairwise_distance of the broadcast rows
_CD = 'torch.cdist(matrix, matrix, compute_mode="donot_use_mm_for_euclid_dist")'
k("krum-pairwise-distance-eps0", ["C16", "C08", "C10", "C11"], A + "krum.py", _CD, "F.pairwise_distance(matrix.unsqueeze(1), matrix.unsqueeze(0), eps=0.0)")
b("krum-pairwise-distance-default-eps", ["C08", "C16"], A + "krum.py", _CD, "F.pairwise_distance(matrix.unsqueeze(1), matrix.unsqueeze(0))", "eps=1e-6 added to every coordinate of the differences")
# a transform memoising constructor data is still a function of its input (C15 S); the cached row blocks of seeded/C15-r6B are not
k("jac-memoised-lengths", ["C15", "C01", "C07", "C13"], "@seed", _os.path.join(_PD, "jac-memoised-lengths.diff"), "")
# NashMTL cap written as one expression: the correct form is silent, the form that also multiplies un-capped weights by max_norm is in seeded/C19-r7A
k("nashmtl-cap-where", ["C19", "C11"], A + "nash_mtl.py", "            if norm > self.max_norm:\n                alpha = (alpha / norm) * self.max_norm\n",
  "            alpha = alpha * torch.where(norm > self.max_norm, self.max_norm / norm, 1.0)\n")
# TrimmedMean through two partial selections (see seeded_keep/C16-r7K2): the twin that trims on one side only
b("trimmedmean-topk-wrong-side", ["C16"], "@seed", _os.path.join(_PD, "trimmedmean-topk-wrong-side.diff"), "", "keeps the m - 2b smallest entries of every column")
# TensorDict checks declared as tables (see seeded_keep/C14-r7K1): the twin in which Jacobians lost its dictionary-level check
b("tensordict-tables-jacobians-no-dict-check", ["C14"], "@seed", _os.path.join(_PD, "tensordict-tables-jacobians-no-dict-check.diff"), "", "values with different first dimensions are accepted")
# graph walk that classifies nodes when they are discovered (see seeded_keep/C12-r7K1): the twin whose roots are scheduled unclassified
k("walker-roots-not-classified", ["C12"], "@seed", _os.path.join(_PD, "walker-roots-not-classified.diff"), "", "roots are grad_fn nodes of non-leaf tensors, never leaf accumulators: scheduling them unclassified changes nothing")
b("walker-children-not-classified", ["C12"], "@seed", _os.path.join(_PD, "walker-children-not-classified.diff"), "", "leaf accumulators are scheduled, popped and never collected")
# PCGrad with the products <g_i^PC, g_j> kept up to date instead of recomputed (see seeded_keep/C18-r8K1): twins that break the invariant P == G @ w
b("pcgrad-maintained-products-wrong-row", ["C18"], "@seed", _os.path.join(_PD, "pcgrad-maintained-products-wrong-row.diff"), "", "the bookkeeping subtracts row i instead of row j: later conflict tests read stale products")
b("pcgrad-maintained-products-wrong-start", ["C18"], "@seed", _os.path.join(_PD, "pcgrad-maintained-products-wrong-start.diff"), "", "the products start from |G[i]|: conflicts with the original row are never seen")
# Jacobian rows written into a pre-allocated buffer block by block (see seeded_keep/C07-r9K1): the twin that writes every block at row 0
b("jac-row-buffer-always-at-zero", ["C15"], "@seed", _os.path.join(_PD, "jac-row-buffer-always-at-zero.diff"), "", "later blocks overwrite the first one and the remaining rows are uninitialised memory")
# GradDrop without a loop, the leak blended in with torch.lerp (see seeded/C18-r9C for the reversed arguments): the correct spelling is silent
k("graddrop-vectorised-lerp", ["C18", "C11", "C10"], "@seed", _os.path.join(_PD, "graddrop-vectorised-lerp.diff"), "", "lerp(mask, 1, leak) = mask + leak * (1 - mask): kept entries weigh 1, dropped ones leak_i")
# Krum's distance matrix filled row by row (see seeded_keep/C16-r10K1): `row - matrix` is the same matrix, the 1-norm is not
k("krum-rowloop-row-minus-matrix", ["C16", "C08", "C10", "C11"], "@seed", _os.path.join(_PD, "krum-rowloop-row-minus-matrix.diff"), "", "||row - matrix|| = ||matrix - row||")
b("krum-rowloop-l1-norm", ["C16"], "@seed", _os.path.join(_PD, "krum-rowloop-l1-norm.diff"), "", "Manhattan distances: other rows are nearest")
# Conjunction / Stack checks through a family of frozensets and a Counter (see seeded_keep/C14-r8K1): the twins that accept a deviating member / duplicated outputs
b("keysets-family-accepts-two", ["C14"], "@seed", _os.path.join(_PD, "keysets-family-accepts-two.diff"), "", "`len(family) > 2`: one member may require other keys")
b("keysets-counter-never-raises", ["C14"], "@seed", _os.path.join(_PD, "keysets-counter-never-raises.diff"), "", "`total() < len()` is never true: members may output a common key")
# Select through a membership filter (see seeded_keep/C02-r11K1): the comprehension spelling is silent, the complement and the filter on the wrong set are not
k("select-filter-comprehension", ["C02", "C14", "C01", "C06", "C15", "C20"], "@seed", _os.path.join(_PD, "select-filter-comprehension.diff"), "", "{k: v for k, v in d.items() if k in keys} with keys a subset of d")
b("select-filter-complement", ["C14", "C02"], "@seed", _os.path.join(_PD, "select-filter-complement.diff"), "", "`if key not in self.keys`: everything but the selection")
b("select-filter-required-keys", ["C14", "C02"], "@seed", _os.path.join(_PD, "select-filter-required-keys.diff"), "", "filters on required_keys: nothing is dropped")
# TrimmedMean as topk + slice (see seeded_keep/C10-r11K2)
b("trimmedmean-topk-slice-off-by-one", ["C16"], "@seed", _os.path.join(_PD, "trimmedmean-topk-slice-off-by-one.diff"), "", "ranks [trim_number + 1, m - trim_number)")
k("trimmedmean-topk-largest-then-slice", ["C16", "C10", "C08"], "@seed", _os.path.join(_PD, "trimmedmean-topk-largest-then-slice.diff"), "", "the m - b largest in descending order, without their first b: the same window")
# UPGrad's sum over the projected vectors as a loop (see seeded_keep/C10-r11K1)
b("upgrad-loop-position-weighted", ["C10"], "@seed", _os.path.join(_PD, "upgrad-loop-position-weighted.diff"), "", "(index + 1) * projection: the position of a row enters the result")
b("upgrad-loop-store-at-zero", ["C10"], "@seed", _os.path.join(_PD, "upgrad-loop-store-at-zero.diff"), "", "u[0] = weight: every weight lands on the first row")
# pdist scattered through triu_indices (see seeded_keep/C16-r8K1; the tril twin is seeded/C10-r11B)
b("krum-pdist-upper-half-only", ["C10"], "@seed", _os.path.join(_PD, "krum-pdist-upper-half-only.diff"), "", "only the upper triangle receives the distances")
# a sum accumulated in a loop that can be left early is a sum over a prefix of the rows (see seeded/C10-r9C for `length = length + ...`): the `+=` spelling
b("config-length-break-augmented", ["C10"], "@seed", _os.path.join(_PD, "config-length-break-augmented.diff"), "", "rows after the first zero gradient no longer contribute")
# round 12: a decorator that runs the input checks before forward (see seeded_keep/C03-r12K1) — the twin that forgets the finiteness check
b("decorator-checks-matrix-only", ["C11"], "@seed", _os.path.join(_PD, "decorator-checks-matrix-only.diff"), "", "@_with_input_checks(\"_check_is_matrix\"): non-finite input is no longer rejected")
# immutability bound by a setattr loop after the class statement (see seeded_keep/C14-r12K1) — the twin whose tuple forgets `pop`
b("immutable-setattr-missing-pop", ["C14"], "@seed", _os.path.join(_PD, "immutable-setattr-missing-pop.diff"), "", "pop() mutates the dictionary")
# overlap test by inclusion-exclusion (see seeded_keep/C12-r12K1) — the twin with the comparison turned round (never true)
b("overlap-inclusion-exclusion-wrong-sign", ["C02", "C12"], "@seed", _os.path.join(_PD, "overlap-inclusion-exclusion-wrong-sign.diff"), "", "len(A | B) > len(A) + len(B) never holds: overlapping collections are accepted")
# depth-first walker with a separate visited set (see seeded_keep/C07-r12K1) — the twin whose roots are not filtered by the excluded nodes
b("walker-dfs-roots-not-filtered", ["C12"], "@seed", _os.path.join(_PD, "walker-dfs-roots-not-filtered.diff"), "", "excluded roots are expanded")
